#!/usr/bin/env python3
"""Copies confirmed seeded changes from the sub-agents' scratch areas into /verif/seeded/<id>/ with meta.json.
A seed is only saved when its confirmation log (confirm_seed.sh, run by me in the agent's scratch worktree) shows:
demo passes on the clean tree, fails with the patch, and the pinned suite passes with the patch (failures re-run alone)."""
import json, os, re, shutil, subprocess, sys

SEEDS = {
 # id: (property, patch file, demo file, needs-to-manifest, detected by, note)
 "C01-1": ("C01", "patch1.diff", "demo1.rs", "emulated backend; a non-directory directly in the root followed by '..' ('file/..', link bodies 'b/..'): the '..'-at-root shortcut also fires for depth-1 parents and skips the openat that returns ENOTDIR", ["C01", "C04"], ""),
 "C01-2": ("C01", "patch2.diff", "demo2.rs", "emulated backend; a symlink whose body ends in '/' and names a non-directory ('a -> b/' with b a file): empty components of link bodies are filtered, losing the must-be-directory demand", ["C01", "C04"], "needed the link body 'b/' added to the generator and a reference-model fix (trailing slash of nested bodies)"),
 "C02-1": ("C02", "patch1-ported.diff", "demo1.rs", "emulated backend; resolve_nofollow/readlink/open(O_PATH|O_NOFOLLOW) on '<dir>/../<link>' while <dir> is renamed out of the root between openat(dir) and openat('..'): the post-'..' check only runs for partial lookups and the trailing-nofollow early return skips the final check", ["C02"], "needed lookup paths 'a/b/c/../lnk' and attacker-side decoys named like the walked components"),
 "C02-2": ("C02", "patch2.diff", "demo2.rs", "emulated backend with ResolverFlags::NO_SYMLINKS; any path with '..' while a directory on it is moved out: both containment checks are gated on !NO_SYMLINKS", ["C02"], "needed NO_SYMLINKS lookup scenarios"),
 "C03-1": ("C03", "patch1.diff", "demo1.rs", "remove_all on a non-empty directory that an attacker swaps for a symlink between the failed unlink/rmdir and the scan open (openat_follow instead of openat: O_NOFOLLOW lost)", ["C03", "C13", "C05"], ""),
 "C03-2": ("C03", "patch2.diff", "demo2.rs", "openat2 backend; mkdir_all('x/../../escaped') while an attacker creates 'x' between two openat2 probes of the partial lookup: the weakened '..' check lets a tail starting with '..' through and the directory is created outside the root", ["C03"], "needed an attacker 'mkdir' mutation and mkdir_all scenarios with '..' in the tail"),
 "C03-3": ("C03", "patch3.diff", "demo3.rs", "ResolverFlags::NO_SYMLINKS and a path with more '..' than new components ('n4/../../escaped'): lexical cleaning keeps leading '..'", ["C03", "C12"], "needed NO_SYMLINKS variants and '..'-heavy spellings in the sweep / sequential C12"),
 "C04-1": ("C04", "patch1.diff", "demo1.rs", "emulated link budget changed: chains of exactly 40 traversals are refused (kernel allows 40)", ["C04", "C01"], ""),
 "C04-2": ("C04", "patch2.diff", "demo2.rs", "emulated resolve_partial through a symlink whose body is '.' followed by '..' (mkdir_all('a/..') with a -> .): symlink-stack bookkeeping error (InternalError) where openat2 succeeds", ["C04", "C12"], ""),
 "C04-3": ("C04", "patch3.diff", "demo3.rs", "emulated one-shot open with exactly O_PATH|O_DIRECTORY: the re-open that applies O_DIRECTORY is skipped (succeeds on files; F_GETFL lacks O_DIRECTORY)", ["C04", "C01"], "needed O_PATH|O_DIRECTORY in the quick flag sets"),
 "C05-1": ("C05", "patch1.diff", "demo1.rs", "remove_all slow path on a non-empty directory: openat without O_NOFOLLOW (implicit flag removed from the wrapper, one caller forgotten)", ["C05", "C03", "C13"], ""),
 "C05-2": ("C05", "patch2.diff", "demo2.rs", "Rust caller passing O_NOFOLLOW to ProcfsHandle::open_follow on a path ending in a link: the flag is stripped and the link is followed anyway", ["C05", "C07"], "needed open_follow scenarios with O_NOFOLLOW"),
 "C06-1": ("C06", "patch1.diff", "demo1.rs", "handle that sees host mounts (try_from_fd / plain open), base thread-self, a foreign file bind-mounted on the 'thread-self' symlink plus a tmpfs on <pid>/task: the existence probe now follows, a failing probe silently falls back to 'self' and the lookup succeeds with the thread-group leader's entry instead of EXDEV", ["C06"], ""),
 "C06-2": ("C06", "patch2.diff", "demo2.rs", "emulated procfs resolver, handle backed by the host /proc, a symlink '-> 1' bind-mounted onto 'self'/'thread-self' inside the five-syscall window between verifying the component and reading its body (readlinkat by name instead of from the verified descriptor): open(self,'status') returns /proc/1/status", ["C06"], "needed a symlink bind source among the racing mounts and the 'object of the requested path' oracle"),
 "C07-1": ("C07", "patch1.diff", "demo1.rs", "emulated procfs resolver; '..' as the LAST component of a non-following open ('..', './..', '../'): a fast path for the final component sits in front of the '..' check and returns the procfs root / task directory", ["C07"], ""),
 "C07-2": ("C07", "patch2.diff", "demo2.rs", "emulated procfs resolver; trailing slash on a non-directory ('status/'): empty trailing component dropped, ENOTDIR lost", ["C07"], ""),
 "C08-2": ("C08", "patch2.diff", "demo2.rs", "caller is root of a USER NAMESPACE owning its mount+pid namespaces (rootless container) on a subset=pid/hidepid host /proc: an extra MOUNT_ATTR_NOATIME makes fsmount fail with EPERM there (locked atime), the caller silently degrades to clones of the masked host /proc", ["C08"], "first not caught (caller kind outside the privilege alphabet); caught after the user-namespace-root caller was added to C08's configurations"),
 "C08-1": ("C08", "patch1.diff", "demo1.rs", "privileged caller on a subset=pid / hidepid host /proc: new_unmasked() prefers a clone of the (masked) host /proc over a fresh procfs, so existing entries such as sys/kernel/ostype are reported ENOENT", ["C08"], "needed the 'existing but masked must not be ENOENT for privileged callers' oracle"),
 "C09-1": ("C09", "patch1.diff", "demo1.rs", "openat2 backend; reopen with flag combinations openat(2) silently accepts but openat2 refuses (O_PATH|O_RDWR, O_PATH|O_APPEND, unknown bits): final open switched to openat2", ["C09"], "needed sloppy flag combinations in the flag sets"),
 "C09-2": ("C09", "patch2.diff", "demo2.rs", "reopen from a thread with an unshared descriptor table (unshare(CLONE_FILES)) while the thread-group leader holds another file at the same number: /proc/self instead of /proc/thread-self", ["C09"], "needed the unshared-descriptor-table probe"),
 "C10-1": ("C10", "patch1-ported.diff", "demo1.rs", "emulated backend; exactly the readlinkat of a real trailing symlink fails (EIO/ENOMEM/EACCES): resolve returns the un-followed symlink as success", ["C10"], ""),
 "C10-2": ("C10", "patch2-ported.diff", "demo2.rs", "openat2 wrapper retries EAGAIN forever: 16 consecutive EAGAINs end in success instead of a safety violation; an endless storm never returns", ["C10"], ""),
 "C11-1": ("C11", "patch1.diff", "demo1.rs", "openat2 backend and a caller without descriptor 0 (closed stdin): openat2 returning 0 is treated as failure, the descriptor leaks", ["C11"], "needed callers without a descriptor 0"),
 "C11-2": ("C11", "patch2.diff", "demo2.rs", "emulated backend; '..'-at-root lookups returned a dup(2)'ed root descriptor without FD_CLOEXEC (on the repaired tree that descriptor is no longer returned, the plain dup remains)", ["C05"], "C11 itself no longer sees it after fix ee5b102 (the dup is internal); C05 flags the dup(2) call"),
 "C12-1": ("C12", "patch1.diff", "demo1.rs", "two concurrent mkdir_all callers sharing a prefix, one of which fails late (a 256-byte component): its new roll-back removes directories the other caller is standing in; needs two preemptions", ["C12"], "needed doomed-caller groups with preemption bound 2"),
 "C13-1": ("C13", "patch1.diff", "demo1.rs", "two concurrent remove_all of one path with a symlink directly under the named directory: the symlink shortcut lacks the ENOENT tolerance, one caller reports ENOENT", ["C13"], ""),
 "C13-2": ("C13", "patch2.diff", "demo2.rs", "a third party swaps a directory of the subtree for a symlink between the failed fast path and the scan open: openat_follow follows it (out of the root with '../outside')", ["C13", "C03", "C05"], "needed attacker schedules in C13"),
 "C14-1": ("C14", "patch1.diff", "demo1.rs", "path spelled exactly '../name': fast path in resolve_parent opens '..' relative to the root without clamping; single-entry operations act in the root's real parent", ["C14", "C03"], ""),
 "C14-2": ("C14", "patch2.diff", "demo2.rs", "Permissions value carrying file-type bits (as returned by fs::metadata().permissions()): '& !S_IFMT' dropped, wrong inode kind or EINVAL", ["C14"], "needed type bits in the Permissions alphabet"),
 "C15-1": ("C15", "patch1-ported.diff", "demo1.rs", "sysctl=1; two trailing-symlink checks in one walk whose directories get the same descriptor number: directory metadata cached by fd number is stale", ["C15"], "ported to the repaired tree (the fix for intermediate links touched the same lines); original patch kept as patch-original.diff"),
 "C15-2": ("C15", "patch2-ported.diff", "demo2.rs", "sysctl=1; the process follows a symlink, then changes its effective uid: the caller's uid is cached for the process lifetime", ["C15"], "ported (import line); needed the 'root that switches euid after first use' caller"),
 "C16-1": ("C16", "patch1.diff", "demo1.rs", "ERROR_MAP becomes an RwLock: contains_key under read(), insert later under write(); two threads failing concurrently whose random draws collide both get the same id (needs the collision AND the check/check/insert/insert interleaving)", ["C16"], ""),
 "C16-2": ("C16", "patch2.diff", "demo2.rs", "slab rewrite: a stale second pathrs_errorinfo(id) releases the slot a second time; the next two failures that are outstanding together get the same id", ["C16"], ""),
 "C17-1": ("C17", "patch1.diff", "demo1.rs", "readlink into a caller buffer whose size equals the link length exactly: a 'helpful' NUL terminator is written one byte past the buffer (and inside it for larger buffers)", ["C17"], ""),
 "C17-2": ("C17", "patch2.diff", "demo2.rs", "exactly the negative descriptor -100 (AT_FDCWD) is accepted by every descriptor-taking C function (validator 'mirrors' the rustix hot-fix pattern)", ["C17"], ""),
 "C12-2": ("C12", "patch2.diff", "demo2.rs", "two concurrent mkdir_all callers asking for different modes (0755 / 0700): the stricter one refuses to adopt a directory the other just created (new 'not more permissive than requested' check) and fails when it loses the mkdirat race", ["C12"], "needed mixed-mode caller groups in both orders"),
}

def confirm_info(prop, n):
    p = f"/tmp/seed/{prop}/confirm-{n}.log"
    if not os.path.exists(p): return None
    t = open(p).read()
    if "CONFIRM_DONE" not in t: return None
    g = lambda pat: (re.search(pat, t) or [None, None])[1]
    return {"demo_clean_rc": g(r"demo_clean_rc=(\d+)"), "demo_patched_rc": g(r"demo_patched_rc=(\d+)"), "suite_summary": (g(r"Summary \[[^\]]*\] (.*)") or "").strip(),
            "failed_in_full_run": g(r"failed_in_full_run: (\d+)"), "still_failing_when_rerun_alone": g(r"still_failing_alone=(\d+)"),
            "reruns": re.findall(r"(rerun ok|RERUN FAILED[^:]*): (\S+)", t)}

saved, pending = [], []
for sid, (prop, patch, demo, needs, det, note) in SEEDS.items():
    n = sid.split("-")[1]
    src = f"/tmp/seed/{prop}/out"
    ci = confirm_info(prop, n)
    if not ci or not os.path.exists(f"{src}/{patch}"):
        pending.append(sid); continue
    ok = ci["demo_clean_rc"] == "0" and ci["demo_patched_rc"] not in (None, "0")
    if not ok:
        pending.append(sid + "(demo does not discriminate)"); continue
    d = f"/verif/seeded/{sid}"
    os.makedirs(d, exist_ok=True)
    shutil.copy(f"{src}/{patch}", f"{d}/patch.diff")
    if patch.endswith("-ported.diff"): shutil.copy(f"{src}/patch{n}.diff", f"{d}/patch-original.diff")
    if os.path.exists(f"{src}/{demo}"): shutil.copy(f"{src}/{demo}", f"{d}/demo.rs")
    meta = {"seed": sid, "breaks_property": prop, "needs_to_manifest": needs, "detected_by_checks": det, "note": note,
            "patch_base": "repaired tree (ported)" if patch.endswith("-ported.diff") else "snapshot 24c5650 (applies to the repaired tree with git apply / --3way)",
            "origin": "independent sub-agent given only the property text and a scratch worktree",
            "confirmed_by_me": {"where": f"scratch worktree /tmp/seed/{prop}/wt (removed afterwards)", "how": "confirm_seed.sh: demo without patch, apply, build (+capi), demo with patch, pinned suite with patch, failed tests re-run alone up to 4x", **ci},
            "demo_usage": "copy demo.rs to examples/seed_demo.rs and run `cargo run --offline --example seed_demo` as root (exit 0 = property holds)"}
    json.dump(meta, open(f"{d}/meta.json", "w"), indent=1)
    saved.append(sid)
print("saved:", saved)
print("pending:", pending)
