#!/bin/bash
# confirm_queue3.sh <Cxx> : confirm every candidate of that round-3 agent (scratch worktree /tmp/seed3/<Cxx>/wt), one after the other
ID=$1
for n in 1 2 3; do
  [ -f /tmp/seed3/$ID/out/patch$n.diff ] || continue
  [ -f /tmp/seed3/$ID/confirm-$n.log ] && grep -q CONFIRM_DONE /tmp/seed3/$ID/confirm-$n.log && continue
  SEEDBASE=/tmp/seed3 /verif/confirm_seed.sh $ID $n
done
echo "QUEUE_DONE $ID"
