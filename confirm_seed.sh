#!/bin/bash
# confirm_seed.sh <Cxx> <n> : in the scratch worktree of that agent: patch applies, builds (also capi), demo fails with it,
# the pinned suite still passes with it (failures re-run alone), demo passes without it.
ID=$1; N=$2; D=${SEEDBASE:-/tmp/seed}/$ID; WT=$D/wt; LOG=$D/confirm-$N.log
export CARGO_TARGET_DIR=$D/target CARGO_NET_OFFLINE=true
exec >"$LOG" 2>&1
cd "$WT" || exit 2
git checkout -q -- . ; git clean -qfd
FEAT=""; grep -q 'features capi' $D/out/notes.md 2>/dev/null && grep -qi "demo$N.*capi\|capi.*demo$N" $D/out/notes.md && FEAT="--features capi"
case "$ID" in C16|C17) FEAT="--features capi";; esac
cp $D/out/demo$N.rs examples/seed_demo.rs
echo "== demo WITHOUT patch"; timeout 600 cargo run -q --offline $FEAT --example seed_demo >/dev/null 2>$D/demo-clean-$N.err; echo "demo_clean_rc=$?"
git apply $D/out/patch$N.diff || { echo "APPLY FAILED"; exit 3; }
echo "== build"; cargo build -q --offline 2>&1 | grep -E '^error' ; cargo build -q --offline --features capi 2>&1 | grep -E '^error'; echo "build_done"
echo "== demo WITH patch"; timeout 600 cargo run -q --offline $FEAT --example seed_demo >/dev/null 2>$D/demo-patched-$N.err; echo "demo_patched_rc=$?"
rm -f examples/seed_demo.rs
echo "== suite WITH patch"
cargo nextest run --workspace --no-fail-fast --tool-config-file pb:/w/lib/nextest.toml --profile pb --test-threads 8 --offline > $D/suite-$N.log 2>&1
grep -E 'Summary' $D/suite-$N.log
FAILED=$(grep -E '^\s+(FAIL|TIMEOUT|SIGTERM|SIGKILL|SIGABRT|SIGSEGV|ABORT|LEAK-FAIL)' $D/suite-$N.log | awk '{print $NF}' | sort -u)
echo "failed_in_full_run: $(echo $FAILED | wc -w)"
STILL=0
for t in $FAILED; do
  name=${t##*::}
  okk=0; for try in 1 2 3 4; do if cargo nextest run --offline -E "test(=$t)" >/dev/null 2>&1; then okk=1; break; fi; done
  if [ $okk = 1 ]; then echo "  rerun ok: $t"; else echo "  RERUN FAILED 4x: $t"; STILL=$((STILL+1)); fi
done
echo "still_failing_alone=$STILL"
git checkout -q -- . ; git clean -qfd
echo "CONFIRM_DONE"
