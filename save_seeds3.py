#!/usr/bin/env python3
"""Round 3: copies confirmed seeded changes from /tmp/seed3/<prop>/out into /verif/seeded/<prop>-<5+n>/ with meta.json.
Same rule as before: saved only when confirm_seed.sh (SEEDBASE=/tmp/seed3, run by me in the agent's scratch worktree) shows: demo passes
on the clean tree, fails with the patch, pinned suite passes with the patch (tests that fail in the loaded full run re-run alone)."""
import json, os, re, shutil
F = "caught by the first quick run"
SEEDS = {
 # id: (property, n in the agent's directory, needs-to-manifest, detected by, note)
 "C01-6": ("C01", 1, "emulated backend; '..' taken from a non-directory at depth 1 ('file/..', 'file/../dir/x'): fast path back to the root handle without the openat('..')", ["C01", "C04"], F),
 "C01-7": ("C01", 2, "openat2 exists in the kernel but is refused with an errno other than ENOSYS (seccomp profile answering EPERM): the probe only treats ENOSYS as 'absent', no fallback to the emulation", ["C01", "C04"], "caught by the first quick run - because the 'old seccomp profile' feature set (EPERM) had been added to the tree engines two hours earlier in this session; the ENOSYS-only feature sets of the previous sessions would have missed it"),
 "C01-8": ("C01", 3, "openat2 backend, NO_SYMLINKS root, open_subpath with O_PATH and without O_NOFOLLOW, trailing symlink: O_NOFOLLOW added, the link itself is returned where the kernel says ELOOP", ["C01", "C04"], "caught by the first quick run (through the special trees and the O_PATH flag sets with NO_SYMLINKS added earlier in this session)"),
 "C02-6": ("C02", 1, "emulated backend; a walked directory moved into a look-alike sibling of the ROOT, plus the root directory itself exchanged with that sibling and exchanged back around every verification (re-read of the root path hoisted in front of the fd-path read)", [], "NOT CAUGHT, deliberately: it needs the root directory itself to be renamed back and forth. The statement quantifies over mutations of 'entries of the tree'; the library documents that its root-moved detection can be defeated by an attacker who may move the root, and the agent showed that a flip-flop pair defeats the UNCHANGED tree too. A check that demanded more would raise alarms on code where the property holds (a first version with a single root exchange in the alphabet was built, found unable to express the attack, and removed again)"),
 "C02-7": ("C02", 2, "emulated backend; readlink / resolve_nofollow / open_subpath(O_NOFOLLOW) ending on a symlink; while the library is about to open the last component its parent directory is moved out of the root AND a never-inside symlink is planted at that name (two mutations between two consecutive library syscalls): 'return Complete' skips the end-of-walk verification", ["C02"], "missed first, for two reasons: the attacker alphabet never changed the contents of a directory after moving it out of the root ('planting'), and the explorer allowed only one mutation per syscall boundary. Both added; quick tier got bound-2 items with the move/plant alphabet"),
 "C02-8": ("C02", 3, "kernel without openat2; open_subpath with a one-component path with a trailing slash ('e/'), the component swapped from directory to a symlink pointing out of the root: single-name fast path openat(root, 'e/', O_NOFOLLOW) follows it on the host", ["C02", "C05"], "missed first: no lookup path of the race scenarios had a trailing slash; 'e/', 'a/b/', 'abs/' added"),
 "C03-7": ("C03", 1, "multi-step: work through root A, drop it, open root B which gets A's descriptor number, operate on the same parent path: a thread-local cache of the resolved parent keyed by (root fd number, flags, path) makes B's operation land in A", ["C03"], "missed first: every execution used one Root; 'after-other-root' bundles added to C02/C03 (the look-alike sibling is opened as a Root on the same descriptor number, used with the same paths without changing anything, dropped, then the real root is re-opened on that number)"),
 "C03-8": ("C03", 2, "remove_all; the directory swapped for a symlink to an outside directory between the two failed unlinkat calls and the scan open (openat_follow instead of openat)", ["C03", "C13", "C05"], F),
 "C03-9": ("C03", 3, "create_file with O_PATH and a path that ends in '..' without being literally '..' ('./..', 'sub/../..', 'up/..'): the refusal looks at the whole path", ["C03", "C14"], F),
 "C10-6": ("C10", 1, "openat2 backend; mkdir_all where the full path misses components and the first lookup gets 16 EAGAINs: the remembered safety violation is overwritten by an ancestor's ordinary ENOENT and directories are created", ["C10"], F),
 "C10-7": ("C10", 2, "caller whose /proc is not mounted (tmpfs over /proc) and a failing openat2: errno is read after FrozenFd's readlink of /proc/thread-self/fd/N clobbered it - EAGAIN becomes ENOENT, is not retried, never becomes a safety violation", ["C10"], "missed first: no fault scenario ran with an unusable host /proc, and the 'fewer than 16 EAGAINs' rule only looked for EAGAIN surfacing; tmpfs-proc items added and the rule now compares with the undisturbed outcome"),
 "C10-8": ("C10", 3, "remove_all of a NON-directory whose first unlinkat fails once (EIO/EACCES/ENOSPC): ENOTDIR from the scan open treated like ENOENT, Ok(()) while the entry still exists", ["C10"], "missed first: the quick tier's sampled scenarios had no remove_all of a file (thorough had one of a symlink); now always included"),
 "C11-6": ("C11", 1, "privileged caller, masked (subset=pid) handle, path that only exists in the unmasked procfs: the temporary unmasked handle is mem::forget()ten after a successful retry - one fsmount descriptor leaked per call", ["C11"], F),
 "C11-7": ("C11", 2, "C caller with descriptor 0, 1 or 2 closed: returned descriptors <= 2 are moved up with F_DUPFD (no FD_CLOEXEC)", ["C11", "C05"], F),
 "C11-8": ("C11", 3, "pathrs_reopen with O_CREAT / O_EXCL: the lent descriptor is wrapped in an owned Handle and an early '?' between wrap and give-back closes it", ["C11"], "missed first: error paths that start from a VALID lent descriptor (refused flag combinations) were not among the handle scenarios; added (C05/C10/C11)"),
 "C12-6": ("C12", 1, "mode without owner write/search and at least two missing components: intermediate directories get mode|0300", ["C12"], F),
 "C12-7": ("C12", 2, "two callers, one path a proper prefix of the other, one preemption after the first caller's mkdirat: 'directory I created must still be empty' check fails the first caller with a safety violation", ["C12"], F),
 "C12-8": ("C12", 3, "two callers, same path, different modes, loser finished its lookup before the winner's mkdirat: the loser fchmod()s the winner's directory to its own mode", ["C12"], F),
}
def confirm_info(prop, n):
    p = f"/tmp/seed3/{prop}/confirm-{n}.log"
    if not os.path.exists(p): return None
    t = open(p, errors="replace").read()
    if "CONFIRM_DONE" not in t: return None
    g = lambda pat: (re.search(pat, t) or [None, None])[1]
    return {"demo_clean_rc": g(r"demo_clean_rc=(\d+)"), "demo_patched_rc": g(r"demo_patched_rc=(\d+)"), "suite_summary": (g(r"Summary \[[^\]]*\] (.*)") or "").strip(),
            "failed_in_full_run": g(r"failed_in_full_run: (\d+)"), "still_failing_when_rerun_alone": g(r"still_failing_alone=(\d+)"),
            "reruns": re.findall(r"(rerun ok|RERUN FAILED[^:]*): (\S+)", t)}
saved, pending = [], []
for sid, (prop, n, needs, det, note) in SEEDS.items():
    src = f"/tmp/seed3/{prop}/out"
    d = f"/verif/seeded/{sid}"
    if os.path.exists(f"{d}/meta.json") and not os.path.exists(src): saved.append(sid); continue
    ci = confirm_info(prop, n)
    if not ci or not os.path.exists(f"{src}/patch{n}.diff"):
        pending.append(sid); continue
    ok = ci["demo_clean_rc"] == "0" and ci["demo_patched_rc"] not in (None, "0") and ci["still_failing_when_rerun_alone"] == "0"
    if not ok:
        pending.append(f"{sid}(not confirmed: {ci['demo_clean_rc']}/{ci['demo_patched_rc']}/still={ci['still_failing_when_rerun_alone']})"); continue
    os.makedirs(d, exist_ok=True)
    shutil.copy(f"{src}/patch{n}.diff", f"{d}/patch.diff")
    shutil.copy(f"{src}/demo{n}.rs", f"{d}/demo.rs")
    notes = f"{src}/notes.md"
    meta = {"seed": sid, "round": 3, "breaks_property": prop, "needs_to_manifest": needs, "detected_by_checks": det, "note": note,
            "patch_base": "repaired tree (24c5650 + the fix: commits up to 0ecd9b7 at the time the agents worked)",
            "origin": "independent sub-agent given only the property text and a scratch worktree",
            "confirmed_by_me": {"where": f"scratch worktree /tmp/seed3/{prop}/wt (removed afterwards)", "how": "confirm_seed.sh: demo without patch, apply, build (+capi), demo with patch, pinned suite with patch (machine under heavy load from the other agents: tests failing in the full run re-run alone up to 4x)", **ci},
            "demo_usage": "copy demo.rs to examples/seed_demo.rs and run `cargo run --offline [--features capi] --example seed_demo` as root (exit 0 = property holds)"}
    json.dump(meta, open(f"{d}/meta.json", "w"), indent=1)
    saved.append(sid)
print("saved:", len(saved), saved)
print("pending:", pending)
