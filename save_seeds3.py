#!/usr/bin/env python3
"""Round 3: copies confirmed seeded changes from /tmp/seed3/<prop>/out into /verif/seeded/<prop>-<5+n>/ with meta.json.
Same rule as before: saved only when confirm_seed.sh (SEEDBASE=/tmp/seed3, run by me in the agent's scratch worktree) shows: demo passes
on the clean tree, fails with the patch, pinned suite passes with the patch (tests that fail in the loaded full run re-run alone)."""
import json, os, re, shutil
F = "caught by the first quick run"
SEEDS = {
 # id: (property, n in the agent's directory, needs-to-manifest, detected by, note)
 "C01-6": ("C01", 1, "emulated backend; '..' taken from a non-directory at depth 1 ('file/..', 'file/../dir/x'): fast path back to the root handle without the openat('..')", ["C01", "C04"], F),
 "C01-7": ("C01", 2, "openat2 exists in the kernel but is refused with an errno other than ENOSYS (seccomp profile answering EPERM): the probe only treats ENOSYS as 'absent', no fallback to the emulation", ["C01", "C04"], "caught by the first quick run - because the 'old seccomp profile' feature set (EPERM) had been added to the tree engines two hours earlier in this session; the ENOSYS-only feature sets of the previous sessions would have missed it"),
 "C01-8": ("C01", 3, "openat2 backend, NO_SYMLINKS root, open_subpath with O_PATH and without O_NOFOLLOW, trailing symlink: O_NOFOLLOW added, the link itself is returned where the kernel says ELOOP", ["C01", "C04"], "caught by the first quick run (through the special trees and the O_PATH flag sets with NO_SYMLINKS added earlier in this session)"),
 "C02-6": ("C02", 1, "emulated backend; a walked directory moved into a look-alike sibling of the ROOT, plus the root directory itself exchanged with that sibling and exchanged back around every verification (re-read of the root path hoisted in front of the fd-path read)", [], "NOT CAUGHT, deliberately: it needs the root directory itself to be renamed back and forth. The statement quantifies over mutations of 'entries of the tree'; the library documents that its root-moved detection can be defeated by an attacker who may move the root, and the agent showed that a flip-flop pair defeats the UNCHANGED tree too. A check that demanded more would raise alarms on code where the property holds (a first version with a single root exchange in the alphabet was built, found unable to express the attack, and removed again)"),
 "C02-7": ("C02", 2, "emulated backend; readlink / resolve_nofollow / open_subpath(O_NOFOLLOW) ending on a symlink; while the library is about to open the last component its parent directory is moved out of the root AND a never-inside symlink is planted at that name (two mutations between two consecutive library syscalls): 'return Complete' skips the end-of-walk verification", ["C02"], "missed first, for two reasons: the attacker alphabet never changed the contents of a directory after moving it out of the root ('planting'), and the explorer allowed only one mutation per syscall boundary. Both added; quick tier got bound-2 items with the move/plant alphabet"),
 "C02-8": ("C02", 3, "kernel without openat2; open_subpath with a one-component path with a trailing slash ('e/'), the component swapped from directory to a symlink pointing out of the root: single-name fast path openat(root, 'e/', O_NOFOLLOW) follows it on the host", ["C02", "C05"], "missed first: no lookup path of the race scenarios had a trailing slash; 'e/', 'a/b/', 'abs/' added"),
 "C03-7": ("C03", 1, "multi-step: work through root A, drop it, open root B which gets A's descriptor number, operate on the same parent path: a thread-local cache of the resolved parent keyed by (root fd number, flags, path) makes B's operation land in A", ["C03"], "missed first: every execution used one Root; 'after-other-root' bundles added to C02/C03 (the look-alike sibling is opened as a Root on the same descriptor number, used with the same paths without changing anything, dropped, then the real root is re-opened on that number)"),
 "C03-8": ("C03", 2, "remove_all; the directory swapped for a symlink to an outside directory between the two failed unlinkat calls and the scan open (openat_follow instead of openat)", ["C03", "C13", "C05"], F),
 "C03-9": ("C03", 3, "create_file with O_PATH and a path that ends in '..' without being literally '..' ('./..', 'sub/../..', 'up/..'): the refusal looks at the whole path", ["C03", "C14"], F),
 "C10-6": ("C10", 1, "openat2 backend; mkdir_all where the full path misses components and the first lookup gets 16 EAGAINs: the remembered safety violation is overwritten by an ancestor's ordinary ENOENT and directories are created", ["C10"], F),
 "C10-7": ("C10", 2, "caller whose /proc is not mounted (tmpfs over /proc) and a failing openat2: errno is read after FrozenFd's readlink of /proc/thread-self/fd/N clobbered it - EAGAIN becomes ENOENT, is not retried, never becomes a safety violation", ["C10"], "missed first: no fault scenario ran with an unusable host /proc, and the 'fewer than 16 EAGAINs' rule only looked for EAGAIN surfacing; tmpfs-proc items added and the rule now compares with the undisturbed outcome"),
 "C10-8": ("C10", 3, "remove_all of a NON-directory whose first unlinkat fails once (EIO/EACCES/ENOSPC): ENOTDIR from the scan open treated like ENOENT, Ok(()) while the entry still exists", ["C10"], "missed first: the quick tier's sampled scenarios had no remove_all of a file (thorough had one of a symlink); now always included"),
 "C11-6": ("C11", 1, "privileged caller, masked (subset=pid) handle, path that only exists in the unmasked procfs: the temporary unmasked handle is mem::forget()ten after a successful retry - one fsmount descriptor leaked per call", ["C11"], F),
 "C11-7": ("C11", 2, "C caller with descriptor 0, 1 or 2 closed: returned descriptors <= 2 are moved up with F_DUPFD (no FD_CLOEXEC)", ["C11", "C05"], F),
 "C11-8": ("C11", 3, "pathrs_reopen with O_CREAT / O_EXCL: the lent descriptor is wrapped in an owned Handle and an early '?' between wrap and give-back closes it", ["C11"], "missed first: error paths that start from a VALID lent descriptor (refused flag combinations) were not among the handle scenarios; added (C05/C10/C11)"),
 "C12-6": ("C12", 1, "mode without owner write/search and at least two missing components: intermediate directories get mode|0300", ["C12"], F),
 "C12-7": ("C12", 2, "two callers, one path a proper prefix of the other, one preemption after the first caller's mkdirat: 'directory I created must still be empty' check fails the first caller with a safety violation", ["C12"], F),
 "C12-8": ("C12", 3, "two callers, same path, different modes, loser finished its lookup before the winner's mkdirat: the loser fchmod()s the winner's directory to its own mode", ["C12"], F),
 "C04-7": ("C04", 1, "emulated backend; one-shot open with O_PATH|O_DIRECTORY on a directory: the lookup handle is returned without re-opening, O_DIRECTORY missing in F_GETFL", ["C04", "C01"], F),
 "C04-8": ("C04", 2, "emulated backend; a followed symlink whose body ends in '/' and names a non-directory: empty components of link bodies dropped", ["C04", "C01"], F),
 "C04-9": ("C04", 3, "emulated backend; exactly 40 link traversals (limit lowered to 40 with '>=')", ["C04", "C01"], F),
 "C05-6": ("C05", 1, "openat2 backend, a procfs handle that sees over-mounts, a mount on the looked-up path: after EXDEV the same multi-component openat2 is repeated WITHOUT RESOLVE_NO_XDEV 'for a better error message' (the result is EXDEV either way)", ["C05"], "missed first: no C05 scenario had an over-mount; procfs lookups through a host-visible handle under one racing mount/umount at every procfs syscall boundary were added (which also met the remaining candidates of the known error-formatting call site)"),
 "C05-7": ("C05", 2, "kernel without openat2; open_subpath without O_PATH with a path spelled 'name/' or 'name/.': openat(root, 'esc/') - a two-byte-longer 'single component' that follows a symlink", ["C05", "C02"], "caught by the first quick run - through the trailing-slash lookups added to the race scenarios an hour earlier for seed C02-8"),
 "C05-8": ("C05", 3, "mkdir_all; another process creates the next component as a symlink to a directory between the lookup and the mkdirat: after EEXIST + ENOTDIR the open is retried with the following variant", ["C05", "C03"], F),
 "C06-6": ("C06", 1, "emulated procfs resolver, handle that sees host mounts, a symlink bind-mounted on a procfs symlink the lookup follows (self): mount check skipped for symlink components", ["C06"], F),
 "C06-7": ("C06", 2, "fsopen unavailable, open_tree usable: OPEN_TREE_CLONE dropped, the 'private' handle is the host /proc; a mount placed while open_follow runs", ["C06"], F),
 "C06-8": ("C06", 3, "user-supplied descriptor that is a bind mount of a procfs SUB-directory (/proc/<pid> mounted somewhere): 'is this the procfs root' decided by STATX_ATTR_MOUNT_ROOT", ["C06"], "missed first: every user-supplied descriptor of the check was a genuine procfs root; bind mounts of /proc/<pid>, /proc/sys, /proc/self/task offered to try_from_fd were added (refused, or else every answer must sit directly below a procfs root). patch.diff is the port to the current HEAD (the import line it touches was changed by repair 24)"),
 "C07-6": ("C07", 1, "base ProcRoot, sub-path exactly 'self' / 'thread-self', O_DIRECTORY: a rebase helper returns the directory behind the link from the non-following open", ["C07"], F),
 "C07-7": ("C07", 2, "emulated procfs resolver; trailing '/' folded onto the last component ('7/', '../'): the kernel follows it despite O_NOFOLLOW", ["C07"], F),
 "C07-8": ("C07", 3, "open_follow with exactly one of O_CREAT / O_EXCL (contains instead of intersects)", ["C07", "C09"], F),
 "C08-6": ("C08", 1, "root of a user namespace on a subset=pid /proc: recursion guard also compares mount ids, every clone is a new masked mount", ["C08"], F),
 "C08-7": ("C08", 2, "exactly hidepid=2, unprivileged caller, path ENDING in a foreign pid directory (open(ProcRoot, '1')): a failing statx in verify_same_mnt reported as EXDEV instead of ENOENT", ["C08"], "missed first: the sub-paths only had foreign pid directories as intermediate components; '1' as the final component added (missing for an unprivileged caller under hidepid=2)"),
 "C08-8": ("C08", 3, "multi-step: one ENOENT lookup while seteuid(1000), back to root, subset=pid host /proc, masked-but-existing path: a process-wide 'private mounts do not work' flag", ["C08"], "missed first: every caller kept one identity; a root caller that looked up a missing path while its effective uid was 1000 was added"),
 "C09-6": ("C09", 1, "directory handle + creation flag: fast path openat(fd, '.') skips the refusal; reopen(dir, O_TMPFILE|O_RDWR) returns a new anonymous file", ["C09"], F),
 "C09-7": ("C09", 2, "host /proc over-mounted (tmpfs): the thread-self spelling is probed on the host /proc instead of the private handle - panic; with only 'self' present a thread with its own descriptor table gets the leader's file", ["C09"], "first run printed the violations but ended with exit 2 (a preparatory lookup failed in another item of the disturbed-/proc family and was treated as a machinery error); failing / panicking preparatory lookups under a disturbed host /proc are now handled, exit 1"),
 "C09-8": ("C09", 3, "no openat2 and no new mount API, symlinks bind-mounted over /proc/thread-self pointing at another process's task directory, that process holding another file on the same descriptor number", ["C09"], "missed first: the host-/proc states only covered <pid>/fd; links planted over /proc/self and /proc/thread-self that point at a decoy process (holding a decoy file on the handle's number and its neighbours) were added, for callers with and without the new mount API, both resolvers"),
 "C13-6": ("C13", 1, "scan open through raw rustix openat (no O_NOFOLLOW); a third party swaps the directory for a symlink", ["C13", "C03", "C05"], F),
 "C13-7": ("C13", 2, "path spelled 'x/.' ('a/.', 'link/.'): refusal re-implemented with file_name().is_none(), the directory's contents are deleted and EINVAL returned", ["C13"], F),
 "C13-8": ("C13", 3, "named entry is a NON-directory and a second remove_all of the same path completes between the first caller's newfstatat and unlinkat: ENOENT instead of Ok", ["C13"], "missed first: all same-path caller groups removed directories; groups on a file and on a symlink added"),
 "C14-6": ("C14", 1, "renameat2 flags refused (ENOSYS/EINVAL): RENAME_NOREPLACE emulated with fstatat + renameat", ["C14"], F),
 "C14-7": ("C14", 2, "hardlink whose target has no directory part, created in a sub-directory: target looked up in the link's parent", ["C14"], F),
 "C14-8": ("C14", 3, "create_file with O_PATH and '/..', './..', 'sub/../..'", ["C14", "C03"], F),
 "C15-6": ("C15", 1, "sysctl 1, directory mode sticky + o+w WITHOUT o+r (1733, 1773): S_IRWXO instead of S_IWOTH", ["C15"], "missed first: the directory modes only toggled the sticky and o+w bits with the other 'other' bits at 7 or 5; mode 1773 added"),
 "C15-7": ("C15", 2, "caller whose real and effective uids differ: geteuid() returns the real uid", ["C15"], F),
 "C15-8": ("C15", 3, "'link/.' treated as trailing", ["C15"], F),
 "C16-6": ("C16", 1, "caller without a usable /proc: errno of a failing openat2 read after the error-formatting readlink clobbered it (ENOTDIR reported as ENOENT)", ["C16", "C10"], "missed first: errno attribution was only checked with a working /proc, and the errno of a later REAL failing call was accepted even if that call was the error-formatting probe itself; tmpfs-proc items added, absolute /proc reads no longer count as 'the failing call'"),
 "C16-7": ("C16", 2, "id range ends at -4095: needs the generator to draw the top of its range", ["C16"], F),
 "C16-8": ("C16", 3, "RwLock: description rendered under the read lock, removal under the write lock - two threads get the same error", ["C16"], F),
 "C17-6": ("C17", 1, "readlink buffer exactly as long as the link: NUL written one byte past it", ["C17"], F),
 "C17-7": ("C17", 2, "pathrs_reopen with O_CREAT on a valid lent descriptor: closed on the refusal path", ["C17", "C11"], "missed first by C17 (its invalid-argument classes had no refused flag combination with a VALID descriptor); added"),
 "C17-8": ("C17", 3, "procfs base compared on its low 32 bits", ["C17"], F),
}
def confirm_info(prop, n):
    p = f"/tmp/seed3/{prop}/confirm-{n}.log"
    if not os.path.exists(p): return None
    t = open(p, errors="replace").read()
    if "CONFIRM_DONE" not in t: return None
    g = lambda pat: (re.search(pat, t) or [None, None])[1]
    return {"demo_clean_rc": g(r"demo_clean_rc=(\d+)"), "demo_patched_rc": g(r"demo_patched_rc=(\d+)"), "suite_summary": (g(r"Summary \[[^\]]*\] (.*)") or "").strip(),
            "failed_in_full_run": g(r"failed_in_full_run: (\d+)"), "still_failing_when_rerun_alone": g(r"still_failing_alone=(\d+)"),
            "reruns": re.findall(r"(rerun ok|RERUN FAILED[^:]*): (\S+)", t)}
saved, pending = [], []
for sid, (prop, n, needs, det, note) in SEEDS.items():
    src = f"/tmp/seed3/{prop}/out"
    d = f"/verif/seeded/{sid}"
    if os.path.exists(f"{d}/meta.json"): saved.append(sid); continue   # saved earlier (a ported patch.diff is not overwritten)
    ci = confirm_info(prop, n)
    if not ci or not os.path.exists(f"{src}/patch{n}.diff"):
        pending.append(sid); continue
    ok = ci["demo_clean_rc"] == "0" and ci["demo_patched_rc"] not in (None, "0") and ci["still_failing_when_rerun_alone"] == "0"
    if not ok:
        pending.append(f"{sid}(not confirmed: {ci['demo_clean_rc']}/{ci['demo_patched_rc']}/still={ci['still_failing_when_rerun_alone']})"); continue
    os.makedirs(d, exist_ok=True)
    shutil.copy(f"{src}/patch{n}.diff", f"{d}/patch.diff")
    shutil.copy(f"{src}/demo{n}.rs", f"{d}/demo.rs")
    notes = f"{src}/notes.md"
    meta = {"seed": sid, "round": 3, "breaks_property": prop, "needs_to_manifest": needs, "detected_by_checks": det, "note": note,
            "patch_base": "repaired tree (24c5650 + the fix: commits up to 0ecd9b7 at the time the agents worked)",
            "origin": "independent sub-agent given only the property text and a scratch worktree",
            "confirmed_by_me": {"where": f"scratch worktree /tmp/seed3/{prop}/wt (removed afterwards)", "how": "confirm_seed.sh: demo without patch, apply, build (+capi), demo with patch, pinned suite with patch (machine under heavy load from the other agents: tests failing in the full run re-run alone up to 4x)", **ci},
            "demo_usage": "copy demo.rs to examples/seed_demo.rs and run `cargo run --offline [--features capi] --example seed_demo` as root (exit 0 = property holds)"}
    json.dump(meta, open(f"{d}/meta.json", "w"), indent=1)
    saved.append(sid)
print("saved:", len(saved), saved)
print("pending:", pending)
