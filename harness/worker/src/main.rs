//! The only binary that links libpathrs. Two modes:
//!   worker serve '<Setup json>'      : line-oriented request/response loop on stdin/stdout (treemc)
//!   worker oneshot '<OneShot json>'  : setup, warm-up, SIGSTOP, one op, SIGSTOP, report, exit (sysmc)
//! Every libpathrs call happens after chroot() into the tmpfs jail.

use pathrs::{
    error::{Error, ErrorKind},
    flags::{OpenFlags, RenameFlags, ResolverFlags},
    procfs::{ProcfsBase, ProcfsHandle},
    InodeType, Root,
};
use proto::*;
use std::{
    collections::HashMap,
    ffi::{CStr, CString},
    fs::Permissions,
    io::{BufRead, Write},
    os::unix::{
        fs::PermissionsExt,
        io::{AsFd, AsRawFd, FromRawFd, OwnedFd, RawFd},
    },
    panic::{self, AssertUnwindSafe},
    sync::Mutex,
};

use libc::{c_char, c_int, c_uint, dev_t, size_t};

#[repr(C)]
struct CError {
    saved_errno: u64,
    description: *const c_char,
}

extern "C" {
    fn pathrs_open_root(path: *const c_char) -> RawFd;
    fn pathrs_reopen(fd: c_int, flags: c_int) -> RawFd;
    fn pathrs_inroot_resolve(root_fd: c_int, path: *const c_char) -> RawFd;
    fn pathrs_inroot_resolve_nofollow(root_fd: c_int, path: *const c_char) -> RawFd;
    fn pathrs_inroot_open(root_fd: c_int, path: *const c_char, flags: c_int) -> RawFd;
    fn pathrs_inroot_readlink(root_fd: c_int, path: *const c_char, buf: *mut c_char, size: size_t) -> c_int;
    fn pathrs_inroot_rename(root_fd: c_int, src: *const c_char, dst: *const c_char, flags: u32) -> c_int;
    fn pathrs_inroot_rmdir(root_fd: c_int, path: *const c_char) -> c_int;
    fn pathrs_inroot_unlink(root_fd: c_int, path: *const c_char) -> c_int;
    fn pathrs_inroot_remove_all(root_fd: c_int, path: *const c_char) -> c_int;
    fn pathrs_inroot_creat(root_fd: c_int, path: *const c_char, flags: c_int, mode: c_uint) -> RawFd;
    fn pathrs_inroot_mkdir(root_fd: c_int, path: *const c_char, mode: c_uint) -> c_int;
    fn pathrs_inroot_mkdir_all(root_fd: c_int, path: *const c_char, mode: c_uint) -> RawFd;
    fn pathrs_inroot_mknod(root_fd: c_int, path: *const c_char, mode: c_uint, dev: dev_t) -> c_int;
    fn pathrs_inroot_symlink(root_fd: c_int, path: *const c_char, target: *const c_char) -> c_int;
    fn pathrs_inroot_hardlink(root_fd: c_int, path: *const c_char, target: *const c_char) -> c_int;
    fn pathrs_proc_open(base: u64, path: *const c_char, flags: c_int) -> RawFd;
    fn pathrs_proc_readlink(base: u64, path: *const c_char, buf: *mut c_char, size: size_t) -> c_int;
    fn pathrs_errorinfo(err_id: c_int) -> *mut CError;
    fn pathrs_errorinfo_free(ptr: *mut CError);
}

static PANIC_INFO: Mutex<Option<String>> = Mutex::new(None);

struct State {
    /// one-shot mode: descriptors are inspected only after the END marker so that the traced window contains
    /// nothing but the library's own system calls
    defer: bool,
    roots: HashMap<String, Root>,
    handles: HashMap<String, OwnedFd>,
    procs: HashMap<String, ProcfsHandle>,
}

fn die(msg: &str) -> ! {
    eprintln!("worker: {}", msg);
    std::process::exit(70);
}

fn cstr(s: &str) -> CString {
    // interior NULs are cut, as C would see them; raw bytes carried as private-use characters are restored
    let b: Vec<u8> = proto::dec_path(s).into_iter().take_while(|&c| c != 0).collect();
    CString::new(b).unwrap()
}

/// a path argument for the Rust API, byte-exact
fn pbuf(s: &str) -> std::path::PathBuf {
    std::path::PathBuf::from(<std::ffi::OsString as std::os::unix::ffi::OsStringExt>::from_vec(proto::dec_path(s)))
}

unsafe fn write_file(path: &str, data: &str) {
    unsafe {
        let c = cstr(path);
        let fd = libc::open(c.as_ptr(), libc::O_WRONLY | libc::O_CLOEXEC);
        if fd < 0 { die(&format!("open {} failed: {}", path, std::io::Error::last_os_error())); }
        if libc::write(fd, data.as_ptr() as *const libc::c_void, data.len()) != data.len() as isize { die(&format!("write {} failed: {}", path, std::io::Error::last_os_error())); }
        libc::close(fd);
    }
}

/// The parent of a forked continuation: wait for it and leave with its status (the supervisor traces the continuation itself).
unsafe fn relay(child: libc::pid_t) -> ! {
    unsafe {
        loop {
            let mut st = 0;
            let r = libc::waitpid(child, &mut st, 0);
            if r < 0 { if *libc::__errno_location() == libc::EINTR { continue; } libc::_exit(71); }
            if libc::WIFEXITED(st) { libc::_exit(libc::WEXITSTATUS(st)); }
            if libc::WIFSIGNALED(st) { libc::_exit(128 + libc::WTERMSIG(st)); }
        }
    }
}

fn apply_setup(s: &Setup) {
    unsafe {
        if s.userns {
            // must precede chroot (a chrooted process may not create a user namespace)
            if libc::unshare(libc::CLONE_NEWUSER | libc::CLONE_NEWNS | libc::CLONE_NEWPID) != 0 { die(&format!("unshare(user|mnt|pid) failed: {}", std::io::Error::last_os_error())); }
            write_file("/proc/self/setgroups", "deny");
            write_file("/proc/self/uid_map", "0 0 1");
            write_file("/proc/self/gid_map", "0 0 1");
            // first fork: pid 1 of the new pid namespace, which only waits; second fork: the worker proper (pid 2), so that
            // signals and abort() behave as for any ordinary process
            for _ in 0..2 {
                let c = libc::fork();
                if c < 0 { die("fork failed"); }
                if c > 0 { relay(c); }
            }
        }
        if !s.jail.is_empty() {
            let j = cstr(&s.jail);
            if libc::chroot(j.as_ptr()) != 0 || libc::chdir(b"/\0".as_ptr() as *const c_char) != 0 {
                die("chroot into jail failed");
            }
        }
        if let Some(n) = s.rlimit_nofile {
            let lim = libc::rlimit { rlim_cur: n, rlim_max: n };
            if libc::setrlimit(libc::RLIMIT_NOFILE, &lim) != 0 {
                die("setrlimit failed");
            }
        }
        if let Some(m) = s.umask {
            libc::umask(m);
        }
        if !s.deny.is_empty() {
            install_seccomp(&s.deny);
        }
        if s.uid != 0 || s.gid != 0 {
            if libc::setgroups(0, std::ptr::null()) != 0 { die("setgroups"); }
            if libc::setresgid(s.gid, s.gid, s.gid) != 0 { die("setresgid"); }
            if libc::setresuid(s.uid, s.uid, s.uid) != 0 { die("setresuid"); }
        }
        if s.drop_caps {
            // capset(v3, all zero)
            #[repr(C)]
            struct Hdr { version: u32, pid: i32 }
            #[repr(C)]
            struct Data { effective: u32, permitted: u32, inheritable: u32 }
            let hdr = Hdr { version: 0x20080522, pid: 0 };
            let data = [Data { effective: 0, permitted: 0, inheritable: 0 }, Data { effective: 0, permitted: 0, inheritable: 0 }];
            for cap in 0..64 { libc::prctl(libc::PR_CAPBSET_DROP, cap, 0, 0, 0); }
            if libc::syscall(libc::SYS_capset, &hdr as *const Hdr, data.as_ptr()) != 0 { die("capset"); }
        }
        if s.keep_dumpable {
            libc::prctl(libc::PR_SET_DUMPABLE, 1, 0, 0, 0);
        }
    }
}

fn sysno(name: &str) -> i64 {
    match name {
        "openat2" => libc::SYS_openat2,
        "fsopen" => libc::SYS_fsopen,
        "fsconfig" => libc::SYS_fsconfig,
        "fsmount" => libc::SYS_fsmount,
        "open_tree" => libc::SYS_open_tree,
        "statx" => libc::SYS_statx,
        "renameat2" => libc::SYS_renameat2,
        "faccessat2" => libc::SYS_faccessat2,
        "symlinkat" => libc::SYS_symlinkat,
        "mknodat" => libc::SYS_mknodat,
        "linkat" => libc::SYS_linkat,
        other => die(&format!("unknown syscall in deny list: {}", other)),
    }
}

unsafe fn install_seccomp(deny: &[String]) {
    // BPF: if arch != x86_64 allow; for each nr: if nr == X return ERRNO(ENOSYS); allow
    let mut prog: Vec<libc::sock_filter> = Vec::new();
    let stmt = |code: u16, k: u32| libc::sock_filter { code, jt: 0, jf: 0, k };
    let jump = |code: u16, k: u32, jt: u8, jf: u8| libc::sock_filter { code, jt, jf, k };
    const LD_W_ABS: u16 = 0x20; // BPF_LD|BPF_W|BPF_ABS
    const JEQ_K: u16 = 0x15; // BPF_JMP|BPF_JEQ|BPF_K
    const RET_K: u16 = 0x06;
    const ALLOW: u32 = 0x7fff_0000;
    const ERRNO: u32 = 0x0005_0000;
    prog.push(stmt(LD_W_ABS, 4)); // arch
    prog.push(jump(JEQ_K, 0xc000_003e, 1, 0));
    prog.push(stmt(RET_K, ALLOW));
    prog.push(stmt(LD_W_ABS, 0)); // nr
    for name in deny {
        if name == "fsconfig_set_string" {
            // kernels with the new mount API but without hidepid=ptraceable / subset=pid (5.1 - 5.7): FSCONFIG_SET_STRING => EINVAL
            prog.push(jump(JEQ_K, libc::SYS_fsconfig as u32, 0, 4));
            prog.push(stmt(LD_W_ABS, 24)); // args[1], low word
            prog.push(jump(JEQ_K, 1, 0, 1)); // FSCONFIG_SET_STRING
            prog.push(stmt(RET_K, ERRNO | libc::EINVAL as u32));
            prog.push(stmt(LD_W_ABS, 0));
            continue;
        }
        // "name" => ENOSYS (a kernel without the call); "name=EPERM" (EACCES, EINVAL) => what a seccomp profile that predates
        // the call answers (old container runtimes refuse unknown system calls with EPERM)
        let (nm, err) = match name.split_once('=') {
            Some((n, "EPERM")) => (n, libc::EPERM), Some((n, "EACCES")) => (n, libc::EACCES), Some((n, "EINVAL")) => (n, libc::EINVAL), Some((n, _)) => (n, libc::ENOSYS), None => (name.as_str(), libc::ENOSYS),
        };
        prog.push(jump(JEQ_K, sysno(nm) as u32, 0, 1));
        prog.push(stmt(RET_K, ERRNO | err as u32));
    }
    prog.push(stmt(RET_K, ALLOW));
    let fprog = libc::sock_fprog { len: prog.len() as u16, filter: prog.as_mut_ptr() };
    if libc::prctl(libc::PR_SET_NO_NEW_PRIVS, 1, 0, 0, 0) != 0 { die("no_new_privs"); }
    if libc::prctl(libc::PR_SET_SECCOMP, 2 /* SECCOMP_MODE_FILTER */, &fprog as *const libc::sock_fprog) != 0 {
        die("seccomp install failed");
    }
}

fn fd_table() -> Vec<FdEnt> {
    let mut lim = libc::rlimit { rlim_cur: 0, rlim_max: 0 };
    unsafe { libc::getrlimit(libc::RLIMIT_NOFILE, &mut lim) };
    let max = std::cmp::min(lim.rlim_cur, 2048) as i32;
    let mut v = Vec::new();
    for fd in 0..max {
        let fl = unsafe { libc::fcntl(fd, libc::F_GETFD) };
        if fl < 0 { continue; }
        let mut st: libc::stat = unsafe { std::mem::zeroed() };
        unsafe { libc::fstat(fd, &mut st) };
        v.push(FdEnt { fd, dev: st.st_dev, ino: st.st_ino, cloexec: fl & libc::FD_CLOEXEC != 0 });
    }
    v
}

fn fd_info(fd: RawFd) -> FdInfo {
    let mut st: libc::stat = unsafe { std::mem::zeroed() };
    unsafe { libc::fstat(fd, &mut st) };
    let getfl = unsafe { libc::fcntl(fd, libc::F_GETFL) };
    let getfd = unsafe { libc::fcntl(fd, libc::F_GETFD) };
    let mut link = None;
    if st.st_mode & libc::S_IFMT == libc::S_IFLNK {
        let mut buf = vec![0u8; 8192];
        let n = unsafe { libc::readlinkat(fd, b"\0".as_ptr() as *const c_char, buf.as_mut_ptr() as *mut c_char, buf.len()) };
        if n >= 0 { link = Some(String::from_utf8_lossy(&buf[..n as usize]).into_owned()); }
    }
    let mut sfs: libc::statfs = unsafe { std::mem::zeroed() };
    unsafe { libc::fstatfs(fd, &mut sfs) };
    let mut stx: libc::statx = unsafe { std::mem::zeroed() };
    let r = unsafe { libc::statx(fd, b"\0".as_ptr() as *const c_char, libc::AT_EMPTY_PATH, libc::STATX_MNT_ID, &mut stx) };
    let mnt_id = if r == 0 { stx.stx_mnt_id } else { 0 };
    let procpath = std::fs::read_link(format!("/proc/self/fd/{}", fd)).ok().map(|p| p.to_string_lossy().into_owned());
    FdInfo {
        fd, dev: st.st_dev, ino: st.st_ino, mode: st.st_mode, nlink: st.st_nlink, uid: st.st_uid, size: st.st_size,
        getfl, cloexec: getfd >= 0 && getfd & libc::FD_CLOEXEC != 0, link, fstype: sfs.f_type as i64, mnt_id, procpath,
    }
}

fn kind_errno(k: &ErrorKind) -> Option<i32> {
    match k {
        ErrorKind::NotImplemented => Some(libc::ENOSYS),
        ErrorKind::InvalidArgument => Some(libc::EINVAL),
        ErrorKind::SafetyViolation => Some(libc::EXDEV),
        ErrorKind::OsError(e) => *e,
        _ => None,
    }
}

fn kind_name(k: &ErrorKind) -> String {
    match k {
        ErrorKind::OsError(_) => "OsError".into(),
        other => format!("{:?}", other),
    }
}

/// Error values of failed calls stay alive (as they would in a caller that is still looking at them) until the descriptor
/// table has been inspected; see `release_errors`.
static KEPT_ERRORS: Mutex<Vec<Error>> = Mutex::new(Vec::new());
/// ids of failed C calls whose pathrs_errorinfo() has not been fetched yet (fetched after the table inspection)
static PENDING_CERR: Mutex<Vec<c_int>> = Mutex::new(Vec::new());

fn err_obs(e: Error) -> Obs {
    let k = e.kind();
    let mut msg = e.to_string();
    {
        let mut src: &dyn std::error::Error = &e;
        while let Some(n) = src.source() { msg.push_str(": "); msg.push_str(&n.to_string()); src = n; }
    }
    if let Ok(mut g) = KEPT_ERRORS.lock() { g.push(e); }
    Obs { ok: false, kind: Some(kind_name(&k)), errno: kind_errno(&k), msg: Some(msg), ..Default::default() }
}

/// After the descriptor table has been looked at: drop the kept Rust errors, fetch (twice) the error of a failed C call.
fn release_errors(o: &mut Obs) {
    if let Ok(mut g) = KEPT_ERRORS.lock() { g.clear(); }
    let pending: Vec<c_int> = PENDING_CERR.lock().map(|mut g| std::mem::take(&mut *g)).unwrap_or_default();
    for ret in pending {
        unsafe {
            let p = pathrs_errorinfo(ret);
            if !p.is_null() {
                let desc = if (*p).description.is_null() { String::new() } else { CStr::from_ptr((*p).description).to_string_lossy().into_owned() };
                let errno = (*p).saved_errno;
                pathrs_errorinfo_free(p);
                let p2 = pathrs_errorinfo(ret);
                let second_null = p2.is_null();
                if !p2.is_null() { pathrs_errorinfo_free(p2); }
                if o.ret == Some(ret as i64) {
                    o.errno = Some(errno as i32);
                    o.msg = Some(desc.clone());
                    o.cerr = Some(CErr { errno, desc, second_null });
                }
            }
        }
    }
}

fn ok_fd(st: &mut State, op: &Op, fd: OwnedFd) -> Obs {
    if st.defer {
        let raw = fd.as_raw_fd();
        st.handles.insert(op.keep.clone().unwrap_or_else(|| "ret".into()), fd);
        return Obs { ok: true, ret: Some(raw as i64), ..Default::default() };
    }
    let info = fd_info(fd.as_raw_fd());
    if let Some(k) = &op.keep { st.handles.insert(k.clone(), fd); }
    Obs { ok: true, fd: Some(info), ..Default::default() }
}

fn harness_err(s: String) -> Obs {
    Obs { ok: false, harness_error: Some(s), ..Default::default() }
}

fn base_of(s: &str) -> Result<ProcfsBase, String> {
    match s {
        "root" => Ok(ProcfsBase::ProcRoot),
        "self" => Ok(ProcfsBase::ProcSelf),
        "thread-self" => Ok(ProcfsBase::ProcThreadSelf),
        o => Err(format!("bad base {}", o)),
    }
}

fn cbase_of(s: &str) -> u64 {
    match s {
        "root" => 0x5001_FFFF,
        "self" => 0x091D_5E1F,
        "thread-self" => 0x3EAD_5E1F,
        o => o.parse::<u64>().unwrap_or_else(|_| u64::from_str_radix(o.trim_start_matches("0x"), 16).unwrap_or(0)),
    }
}

fn c_ret(st: &mut State, op: &Op, ret: c_int, returns_fd: bool) -> Obs {
    let mut o = Obs { ret: Some(ret as i64), ..Default::default() };
    if ret >= 0 {
        o.ok = true;
        if returns_fd {
            let fd = unsafe { OwnedFd::from_raw_fd(ret) };
            if st.defer { st.handles.insert(op.keep.clone().unwrap_or_else(|| "ret".into()), fd); }
            else { o.fd = Some(fd_info(ret)); if let Some(k) = &op.keep { st.handles.insert(k.clone(), fd); } }
        }
    } else {
        o.ok = false;
        o.kind = Some("CError".into());
        if let Ok(mut g) = PENDING_CERR.lock() { g.push(ret); }
    }
    o
}

fn itype_of(op: &Op) -> Result<InodeType, String> {
    let perm = Permissions::from_mode(op.mode.unwrap_or(0o644));
    Ok(match op.itype.as_deref().unwrap_or("") {
        "file" => InodeType::File(perm),
        "dir" => InodeType::Directory(perm),
        "symlink" => InodeType::Symlink(pbuf(&op.path2.clone().unwrap_or_default())),
        "hardlink" => InodeType::Hardlink(pbuf(&op.path2.clone().unwrap_or_default())),
        "fifo" => InodeType::Fifo(perm),
        "chr" => InodeType::CharacterDevice(perm, op.dev.unwrap_or(0x0103)),
        "blk" => InodeType::BlockDevice(perm, op.dev.unwrap_or(0x0700)),
        o => return Err(format!("bad itype {}", o)),
    })
}

/// The three flavours of the Rust API a caller can use for one and the same operation (see proto::Op::via).
enum AnyRoot<'a> { Ref(pathrs::RootRef<'a>), Borrowed(&'a Root), Owned(Root) }

macro_rules! any_root_delegate {
    ($self:ident, $r:ident => $e:expr) => { match $self { AnyRoot::Ref($r) => $e, AnyRoot::Borrowed($r) => $e, AnyRoot::Owned($r) => $e } };
}

impl<'a> AnyRoot<'a> {
    fn resolve(&self, p: &std::path::Path) -> Result<pathrs::Handle, pathrs::error::Error> { any_root_delegate!(self, r => r.resolve(p)) }
    fn resolve_nofollow(&self, p: &std::path::Path) -> Result<pathrs::Handle, pathrs::error::Error> { any_root_delegate!(self, r => r.resolve_nofollow(p)) }
    fn open_subpath(&self, p: &std::path::Path, f: OpenFlags) -> Result<std::fs::File, pathrs::error::Error> { any_root_delegate!(self, r => r.open_subpath(p, f)) }
    fn readlink(&self, p: &std::path::Path) -> Result<std::path::PathBuf, pathrs::error::Error> { any_root_delegate!(self, r => r.readlink(p)) }
    fn create(&self, p: &std::path::Path, it: &InodeType) -> Result<(), pathrs::error::Error> { any_root_delegate!(self, r => r.create(p, it)) }
    fn create_file(&self, p: &std::path::Path, f: OpenFlags, perm: &Permissions) -> Result<std::fs::File, pathrs::error::Error> { any_root_delegate!(self, r => r.create_file(p, f, perm)) }
    fn mkdir_all(&self, p: &std::path::Path, perm: &Permissions) -> Result<pathrs::Handle, pathrs::error::Error> { any_root_delegate!(self, r => r.mkdir_all(p, perm)) }
    fn remove_file(&self, p: &std::path::Path) -> Result<(), pathrs::error::Error> { any_root_delegate!(self, r => r.remove_file(p)) }
    fn remove_dir(&self, p: &std::path::Path) -> Result<(), pathrs::error::Error> { any_root_delegate!(self, r => r.remove_dir(p)) }
    fn remove_all(&self, p: &std::path::Path) -> Result<(), pathrs::error::Error> { any_root_delegate!(self, r => r.remove_all(p)) }
    fn rename(&self, p: &std::path::Path, q: &std::path::Path, f: RenameFlags) -> Result<(), pathrs::error::Error> { any_root_delegate!(self, r => r.rename(p, q, f)) }
    fn try_clone(&self) -> Result<Root, pathrs::error::Error> { any_root_delegate!(self, r => r.try_clone()) }
}

fn get_root<'a>(st: &'a mut State, op: &Op) -> Result<&'a Root, Obs> {
    let key = op.root.clone().ok_or_else(|| harness_err("op needs root".into()))?;
    if !st.roots.contains_key(&key) {
        if let Some(path) = key.strip_prefix("rdonly:") {
            // a Root wrapped around a caller-supplied O_RDONLY directory descriptor (Root::from_fd)
            let c = cstr(path);
            let fd = unsafe { libc::open(c.as_ptr(), libc::O_RDONLY | libc::O_DIRECTORY | libc::O_CLOEXEC) };
            if fd < 0 { return Err(harness_err(format!("open {} failed", path))); }
            st.roots.insert(key.clone(), Root::from_fd(unsafe { OwnedFd::from_raw_fd(fd) }));
        }
    }
    if !st.roots.contains_key(&key) {
        match Root::open(&key) {
            Ok(r) => { st.roots.insert(key.clone(), r); }
            Err(e) => return Err(harness_err(format!("Root::open({}) failed: {}", key, e))),
        }
    }
    Ok(st.roots.get(&key).unwrap())
}

fn c_readlink(root_or_base: Result<c_int, u64>, path: *const c_char, bufsize: i64) -> (c_int, Option<i64>, Option<bool>, Option<String>) {
    // bufsize < 0  => NULL buffer with size = -bufsize-1
    const CAN: usize = 64;
    if bufsize < 0 {
        let size = (-bufsize - 1) as usize;
        let r = unsafe {
            match root_or_base {
                Ok(fd) => pathrs_inroot_readlink(fd, path, std::ptr::null_mut(), size),
                Err(b) => pathrs_proc_readlink(b, path, std::ptr::null_mut(), size),
            }
        };
        return (r, Some(0), Some(true), None);
    }
    let size = bufsize as usize;
    let mut area = vec![0xA5u8; CAN + size + CAN];
    let r = unsafe {
        let p = area.as_mut_ptr().add(CAN) as *mut c_char;
        match root_or_base {
            Ok(fd) => pathrs_inroot_readlink(fd, path, p, size),
            Err(b) => pathrs_proc_readlink(b, path, p, size),
        }
    };
    let canary_ok = area[..CAN].iter().all(|&b| b == 0xA5) && area[CAN + size..].iter().all(|&b| b == 0xA5);
    // bytes written = longest prefix after which everything is still 0xA5 (link bodies in checks never contain 0xA5)
    let body = &area[CAN..CAN + size];
    let written = body.iter().rposition(|&b| b != 0xA5).map(|i| i + 1).unwrap_or(0);
    let text = String::from_utf8_lossy(&body[..written]).into_owned();
    (r, Some(written as i64), Some(canary_ok), Some(text))
}

fn run_op_inner(st: &mut State, op: &Op) -> Obs {
    let flags = OpenFlags::from_bits_retain(op.flags.unwrap_or(0) as i32);
    let rfl = ResolverFlags::from_bits_retain(op.rflags.unwrap_or(0));
    let path_s = op.path.clone().unwrap_or_default();
    let path = pbuf(&path_s);
    let capi = op.api == "c";
    macro_rules! root {
        () => {
            match op.via.as_deref() {
                None => match get_root(st, op) { Ok(r) => AnyRoot::Ref(r.as_ref().with_resolver_flags(rfl)), Err(o) => return o },
                Some(via) => {
                    if let Err(o) = get_root(st, op) { return o; }
                    let r = st.roots.get_mut(op.root.as_deref().unwrap_or("")).unwrap();
                    r.set_resolver_flags(rfl);
                    if r.resolver_flags() != rfl { return harness_err("set_resolver_flags did not stick".into()); }
                    let r: &Root = &*r;
                    match via {
                        "owned" => AnyRoot::Borrowed(r),
                        "clone" => match r.as_ref().try_clone() { Ok(c) => AnyRoot::Owned(c), Err(e) => return err_obs(e) },
                        "clone2" => match r.try_clone() { Ok(c) => AnyRoot::Owned(c), Err(e) => return err_obs(e) },
                        o => return harness_err(format!("bad via {}", o)),
                    }
                }
            }
        };
    }
    macro_rules! rootfd {
        () => {
            match op.num { Some(n) => n as c_int, None => match get_root(st, op) { Ok(r) => r.as_fd().as_raw_fd(), Err(o) => return o } }
        };
    }
    macro_rules! unit {
        ($e:expr) => { match $e { Ok(()) => Obs { ok: true, ..Default::default() }, Err(e) => err_obs(e) } };
    }
    let cpath = cstr(&path_s);
    let cpath_ptr: *const c_char = if op.path.is_none() && capi { std::ptr::null() } else { cpath.as_ptr() };
    let cpath2 = cstr(op.path2.as_deref().unwrap_or(""));
    let cpath2_ptr: *const c_char = if op.path2.is_none() && capi { std::ptr::null() } else { cpath2.as_ptr() };

    match (capi, op.name.as_str()) {
        // ------------------------------------------------------------------ Rust API, Root
        (false, "resolve") => { let r = root!(); match r.resolve(&path) { Ok(h) => ok_fd(st, op, h.into()), Err(e) => err_obs(e) } }
        (false, "resolve_nofollow") => { let r = root!(); match r.resolve_nofollow(&path) { Ok(h) => ok_fd(st, op, h.into()), Err(e) => err_obs(e) } }
        (false, "open_subpath") => { let r = root!(); match r.open_subpath(&path, flags) { Ok(f) => ok_fd(st, op, f.into()), Err(e) => err_obs(e) } }
        (false, "readlink") => { let r = root!(); match r.readlink(&path) { Ok(p) => Obs { ok: true, text: Some(proto::enc_bytes(std::os::unix::ffi::OsStrExt::as_bytes(p.as_os_str()))), ..Default::default() }, Err(e) => err_obs(e) } }
        (false, "create") => { let it = match itype_of(op) { Ok(i) => i, Err(e) => return harness_err(e) }; let r = root!(); unit!(r.create(&path, &it)) }
        (false, "create_file") => { let r = root!(); match r.create_file(&path, flags, &Permissions::from_mode(op.mode.unwrap_or(0o644))) { Ok(f) => ok_fd(st, op, f.into()), Err(e) => err_obs(e) } }
        (false, "mkdir_all") => { let r = root!(); match r.mkdir_all(&path, &Permissions::from_mode(op.mode.unwrap_or(0o755))) { Ok(h) => ok_fd(st, op, h.into()), Err(e) => err_obs(e) } }
        (false, "remove_file") => { let r = root!(); unit!(r.remove_file(&path)) }
        (false, "remove_dir") => { let r = root!(); unit!(r.remove_dir(&path)) }
        (false, "remove_all") => { let r = root!(); unit!(r.remove_all(&path)) }
        (false, "rename") => { let r = root!(); let p2 = op.path2.clone().unwrap_or_default(); unit!(r.rename(&path, &pbuf(&p2), RenameFlags::from_bits_retain(op.flags.unwrap_or(0) as u32))) }
        (false, "root_try_clone") => { let r = root!(); match r.try_clone() { Ok(r2) => ok_fd(st, op, r2.into()), Err(e) => err_obs(e) } }
        // ------------------------------------------------------------------ Rust API, Handle
        (false, "reopen") => {
            let h = match op.handle.as_ref().and_then(|k| st.handles.get(k)) { Some(h) => h, None => return harness_err("no such handle".into()) };
            match op.via.as_deref() {
                None => { let hr = pathrs::HandleRef::from_fd(h.as_fd()); match hr.reopen(flags) { Ok(f) => ok_fd(st, op, f.into()), Err(e) => err_obs(e) } }
                // the owned Handle's own method (the descriptor is moved into a Handle and back), or a clone of it
                Some(via) => {
                    let key = op.handle.clone().unwrap_or_default();
                    let fd = st.handles.remove(&key).unwrap();
                    let hd = pathrs::Handle::from_fd(fd);
                    let r = match via {
                        "owned" => hd.reopen(flags),
                        "clone" => hd.as_ref().try_clone().and_then(|c| c.reopen(flags)),
                        _ => hd.try_clone().and_then(|c| c.reopen(flags)),
                    };
                    st.handles.insert(key, hd.into());
                    match r { Ok(f) => ok_fd(st, op, f.into()), Err(e) => err_obs(e) }
                }
            }
        }
        (_, "reopen_unshared") => {
            // The caller is a thread with its OWN descriptor table (unshare(CLONE_FILES)): the handle sits at number `num` in
            // the thread's table, while the thread-group leader has an unrelated decoy at the same number.
            let real = match op.handle.as_ref().and_then(|k| st.handles.get(k)) { Some(h) => h.as_raw_fd(), None => return harness_err("no such handle".into()) };
            let n = op.num.unwrap_or(50) as c_int;
            let dec = cstr(op.path2.as_deref().unwrap_or("/"));
            let dfd = unsafe { libc::open(dec.as_ptr(), libc::O_RDONLY | libc::O_CLOEXEC) };
            if dfd < 0 { return harness_err("cannot open decoy".into()); }
            if unsafe { libc::dup3(dfd, n, libc::O_CLOEXEC) } < 0 { return harness_err("dup3 decoy".into()); }
            unsafe { libc::close(dfd) };
            let fl = op.flags.unwrap_or(0) as c_int;
            let r = std::thread::spawn(move || -> Obs {
                if unsafe { libc::unshare(libc::CLONE_FILES) } != 0 { return harness_err("unshare(CLONE_FILES) failed".into()); }
                if unsafe { libc::dup3(real, n, libc::O_CLOEXEC) } < 0 { return harness_err("dup3 in thread".into()); }
                let out = if capi {
                    let ret = unsafe { pathrs_reopen(n, fl) };
                    if ret >= 0 { let i = fd_info(ret); unsafe { libc::close(ret) }; Obs { ok: true, fd: Some(i), ret: Some(ret as i64), ..Default::default() } }
                    else { let p = unsafe { pathrs_errorinfo(ret) }; let e = if p.is_null() { 0 } else { let e = unsafe { (*p).saved_errno }; unsafe { pathrs_errorinfo_free(p) }; e }; Obs { ok: false, errno: Some(e as i32), kind: Some("CError".into()), ret: Some(ret as i64), ..Default::default() } }
                } else {
                    let b = unsafe { std::os::unix::io::BorrowedFd::borrow_raw(n) };
                    match pathrs::HandleRef::from_fd(b).reopen(OpenFlags::from_bits_retain(fl)) {
                        Ok(f) => { let i = fd_info(f.as_raw_fd()); Obs { ok: true, fd: Some(i), ..Default::default() } }
                        Err(e) => err_obs(e),
                    }
                };
                out
            }).join();
            unsafe { libc::close(n) };
            match r { Ok(o) => o, Err(_) => Obs { ok: false, panic: Some("thread panicked".into()), ..Default::default() } }
        }
        (false, "handle_try_clone") => {
            let h = match op.handle.as_ref().and_then(|k| st.handles.get(k)) { Some(h) => h, None => return harness_err("no such handle".into()) };
            match pathrs::HandleRef::from_fd(h.as_fd()).try_clone() { Ok(h2) => ok_fd(st, op, h2.into()), Err(e) => err_obs(e) }
        }
        // ------------------------------------------------------------------ Rust API, procfs
        (false, "proc_new") => match ProcfsHandle::new() {
            Ok(p) => { st.procs.insert(op.keep.clone().unwrap_or_else(|| "p".into()), p); Obs { ok: true, ..Default::default() } }
            Err(e) => err_obs(e),
        },
        (false, "proc_from_path") => {
            // user-supplied fd: open `path` (absolute, inside the jail) and hand it to try_from_fd
            let c = cstr(&path_s);
            let fd = unsafe { libc::open(c.as_ptr(), libc::O_PATH | libc::O_DIRECTORY | libc::O_CLOEXEC) };
            if fd < 0 { return harness_err(format!("open {} failed", path_s)); }
            match ProcfsHandle::try_from_fd(unsafe { OwnedFd::from_raw_fd(fd) }) {
                Ok(p) => { st.procs.insert(op.keep.clone().unwrap_or_else(|| "p".into()), p); Obs { ok: true, ..Default::default() } }
                Err(e) => err_obs(e),
            }
        }
        (false, "proc_from_handle") => {
            let h = match op.handle.as_ref().and_then(|k| st.handles.remove(k)) { Some(h) => h, None => return harness_err("no such handle".into()) };
            match ProcfsHandle::try_from_fd(h) {
                Ok(p) => { st.procs.insert(op.keep.clone().unwrap_or_else(|| "p".into()), p); Obs { ok: true, ..Default::default() } }
                Err(e) => err_obs(e),
            }
        }
        (false, "proc_open") | (false, "proc_open_follow") | (false, "proc_readlink") => {
            let base = match base_of(op.base.as_deref().unwrap_or("root")) { Ok(b) => b, Err(e) => return harness_err(e) };
            let key = op.procfs.clone().unwrap_or_else(|| "new".into());
            let tmp;
            let p: &ProcfsHandle = if key == "new" {
                tmp = match ProcfsHandle::new() { Ok(p) => p, Err(e) => return err_obs(e) };
                &tmp
            } else {
                match st.procs.get(&key) { Some(p) => p, None => return harness_err(format!("no procfs handle {}", key)) }
            };
            let r: Result<Obs, Result<OwnedFd, Obs>> = match op.name.as_str() {
                "proc_open" => match p.open(base, &path, flags) { Ok(f) => Err(Ok::<OwnedFd, Obs>(f.into())), Err(e) => Ok(err_obs(e)) },
                "proc_open_follow" => match p.open_follow(base, &path, flags) { Ok(f) => Err(Ok::<OwnedFd, Obs>(f.into())), Err(e) => Ok(err_obs(e)) },
                _ => match p.readlink(base, &path) { Ok(t) => Ok(Obs { ok: true, text: Some(t.to_string_lossy().into_owned()), ..Default::default() }), Err(e) => Ok(err_obs(e)) },
            };
            match r { Ok(o) => o, Err(Ok(fd)) => ok_fd(st, op, fd), Err(Err(o)) => o }
        }
        // ------------------------------------------------------------------ C API
        (true, "open_root") => { let r = unsafe { pathrs_open_root(cpath_ptr) }; c_ret(st, op, r, true) }
        (true, "reopen") => {
            let fd = match op.num { Some(n) => n as c_int, None => match op.handle.as_ref().and_then(|k| st.handles.get(k)) { Some(h) => h.as_raw_fd(), None => return harness_err("no such handle".into()) } };
            let r = unsafe { pathrs_reopen(fd, op.flags.unwrap_or(0) as c_int) }; c_ret(st, op, r, true)
        }
        (true, "resolve") => { let fd = rootfd!(); let r = unsafe { pathrs_inroot_resolve(fd, cpath_ptr) }; c_ret(st, op, r, true) }
        (true, "resolve_nofollow") => { let fd = rootfd!(); let r = unsafe { pathrs_inroot_resolve_nofollow(fd, cpath_ptr) }; c_ret(st, op, r, true) }
        (true, "open_subpath") => { let fd = rootfd!(); let r = unsafe { pathrs_inroot_open(fd, cpath_ptr, op.flags.unwrap_or(0) as c_int) }; c_ret(st, op, r, true) }
        (true, "readlink") => {
            let fd = rootfd!();
            let (r, written, canary, text) = c_readlink(Ok(fd), cpath_ptr, op.bufsize.unwrap_or(4096));
            let mut o = c_ret(st, op, r, false); o.written = written; o.canary_ok = canary; o.text = text; o
        }
        (true, "rename") => { let fd = rootfd!(); let r = unsafe { pathrs_inroot_rename(fd, cpath_ptr, cpath2_ptr, op.flags.unwrap_or(0) as u32) }; c_ret(st, op, r, false) }
        (true, "remove_dir") => { let fd = rootfd!(); let r = unsafe { pathrs_inroot_rmdir(fd, cpath_ptr) }; c_ret(st, op, r, false) }
        (true, "remove_file") => { let fd = rootfd!(); let r = unsafe { pathrs_inroot_unlink(fd, cpath_ptr) }; c_ret(st, op, r, false) }
        (true, "remove_all") => { let fd = rootfd!(); let r = unsafe { pathrs_inroot_remove_all(fd, cpath_ptr) }; c_ret(st, op, r, false) }
        (true, "create_file") => { let fd = rootfd!(); let r = unsafe { pathrs_inroot_creat(fd, cpath_ptr, op.flags.unwrap_or(0) as c_int, op.mode.unwrap_or(0o644)) }; c_ret(st, op, r, true) }
        (true, "mkdir") => { let fd = rootfd!(); let r = unsafe { pathrs_inroot_mkdir(fd, cpath_ptr, op.mode.unwrap_or(0o755)) }; c_ret(st, op, r, false) }
        (true, "mkdir_all") => { let fd = rootfd!(); let r = unsafe { pathrs_inroot_mkdir_all(fd, cpath_ptr, op.mode.unwrap_or(0o755)) }; c_ret(st, op, r, true) }
        (true, "mknod") => { let fd = rootfd!(); let r = unsafe { pathrs_inroot_mknod(fd, cpath_ptr, op.mode.unwrap_or(0o100644), op.dev.unwrap_or(0) as dev_t) }; c_ret(st, op, r, false) }
        (true, "symlink") => { let fd = rootfd!(); let r = unsafe { pathrs_inroot_symlink(fd, cpath_ptr, cpath2_ptr) }; c_ret(st, op, r, false) }
        (true, "hardlink") => { let fd = rootfd!(); let r = unsafe { pathrs_inroot_hardlink(fd, cpath_ptr, cpath2_ptr) }; c_ret(st, op, r, false) }
        (true, "proc_open") => { let b = cbase_of(op.base.as_deref().unwrap_or("root")); let r = unsafe { pathrs_proc_open(b, cpath_ptr, op.flags.unwrap_or(0) as c_int) }; c_ret(st, op, r, true) }
        (true, "proc_readlink") => {
            let b = cbase_of(op.base.as_deref().unwrap_or("root"));
            let (r, written, canary, text) = c_readlink(Err(b), cpath_ptr, op.bufsize.unwrap_or(4096));
            let mut o = c_ret(st, op, r, false); o.written = written; o.canary_ok = canary; o.text = text; o
        }
        (true, "errorinfo") => {
            // consume an arbitrary id
            let id = op.num.unwrap_or(0) as c_int;
            let p = unsafe { pathrs_errorinfo(id) };
            if p.is_null() { Obs { ok: true, text: Some("NULL".into()), ..Default::default() } } else {
                let e = unsafe { (*p).saved_errno }; unsafe { pathrs_errorinfo_free(p) };
                Obs { ok: true, text: Some(format!("errno={}", e)), ..Default::default() }
            }
        }
        // ------------------------------------------------------------------ harness utilities (no libpathrs involved)
        (_, "nop") => Obs { ok: true, ..Default::default() },
        (_, "open_root_key") => { match get_root(st, op) { Ok(r) => { let fd = r.as_fd().as_raw_fd(); Obs { ok: true, fd: Some(fd_info(fd)), ..Default::default() } } Err(o) => o } }
        (_, "drop_root") => { if let Some(k) = &op.root { st.roots.remove(k); } Obs { ok: true, ..Default::default() } }
        (_, "root_at_fd") => {
            // move the Root for `root` to descriptor number `num`
            let key = op.root.clone().unwrap_or_default();
            let r = match st.roots.remove(&key) { Some(r) => r, None => match Root::open(&key) { Ok(r) => r, Err(e) => return harness_err(format!("open root: {}", e)) } };
            let old: OwnedFd = r.into();
            let to = op.num.unwrap_or(3) as c_int;
            let n = unsafe { libc::dup3(old.as_raw_fd(), to, libc::O_CLOEXEC) };
            if n < 0 { return harness_err("dup3 failed".into()); }
            drop(old);
            st.roots.insert(key, Root::from_fd(unsafe { OwnedFd::from_raw_fd(n) }));
            Obs { ok: true, ..Default::default() }
        }
        (_, "handle_at_fd") => {
            let key = op.handle.clone().unwrap_or_default();
            let old = match st.handles.remove(&key) { Some(h) => h, None => return harness_err("no such handle".into()) };
            let to = op.num.unwrap_or(3) as c_int;
            if old.as_raw_fd() == to { st.handles.insert(key, old); return Obs { ok: true, ..Default::default() }; }
            let n = unsafe { libc::dup3(old.as_raw_fd(), to, libc::O_CLOEXEC) };
            if n < 0 { return harness_err(format!("dup3 to {} failed: {}", to, std::io::Error::last_os_error())); }
            drop(old);
            st.handles.insert(key, unsafe { OwnedFd::from_raw_fd(n) });
            Obs { ok: true, ..Default::default() }
        }
        (_, "close_handle") => { if let Some(k) = &op.handle { st.handles.remove(k); } Obs { ok: true, ..Default::default() } }
        (_, "handle_info") => {
            match op.handle.as_ref().and_then(|k| st.handles.get(k)) { Some(h) => Obs { ok: true, fd: Some(fd_info(h.as_raw_fd())), ..Default::default() }, None => harness_err("no such handle".into()) }
        }
        (_, "raw_open") => {
            // plain libc open (harness utility, e.g. to lend descriptors or to open sockets/devices as handles)
            let c = cstr(&path_s);
            let fd = unsafe { libc::open(c.as_ptr(), op.flags.unwrap_or(0) as c_int | libc::O_CLOEXEC, 0o644) };
            if fd < 0 { return Obs { ok: false, errno: Some(std::io::Error::last_os_error().raw_os_error().unwrap_or(0)), kind: Some("raw".into()), ..Default::default() }; }
            ok_fd(st, op, unsafe { OwnedFd::from_raw_fd(fd) })
        }
        (_, "raw_openat2") => {
            // the kernel's own in-root resolution as seen by THIS process (same uid, same capabilities): one raw openat2 system
            // call, no library code involved (oracle for callers other than root). itype "readlink": read the link it returns.
            #[repr(C)] struct How { flags: u64, mode: u64, resolve: u64 }
            let rc = cstr(op.root.as_deref().unwrap_or("/"));
            let rfd = unsafe { libc::open(rc.as_ptr(), libc::O_PATH | libc::O_DIRECTORY | libc::O_CLOEXEC) };
            if rfd < 0 { return harness_err(format!("raw_openat2: cannot open root: {}", std::io::Error::last_os_error())); }
            let rfd = unsafe { OwnedFd::from_raw_fd(rfd) };
            let c = cstr(&path_s);
            let how = How { flags: op.flags.unwrap_or(0) as u64 | libc::O_CLOEXEC as u64, mode: 0, resolve: op.rflags.unwrap_or(0) };
            let mut r: i64 = -1; let mut e = 0;
            for i in 0..5000 {
                r = unsafe { libc::syscall(libc::SYS_openat2, rfd.as_raw_fd(), c.as_ptr(), &how as *const How, std::mem::size_of::<How>()) } as i64;
                if r >= 0 { break; }
                e = std::io::Error::last_os_error().raw_os_error().unwrap_or(0);
                if e != libc::EAGAIN { break; }
                if i > 50 { unsafe { libc::usleep(200) }; }
            }
            if r < 0 { return Obs { ok: false, errno: Some(e), kind: Some("raw".into()), ..Default::default() }; }
            let fd = unsafe { OwnedFd::from_raw_fd(r as RawFd) };
            if op.itype.as_deref() == Some("readlink") {
                let mut buf = vec![0u8; 8192];
                let n = unsafe { libc::readlinkat(fd.as_raw_fd(), b"\0".as_ptr() as *const c_char, buf.as_mut_ptr() as *mut c_char, buf.len()) };
                if n < 0 { return Obs { ok: false, errno: Some(std::io::Error::last_os_error().raw_os_error().unwrap_or(0)), kind: Some("raw".into()), ..Default::default() }; }
                return Obs { ok: true, text: Some(proto::enc_bytes(&buf[..n as usize])), ..Default::default() };
            }
            ok_fd(st, op, fd)
        }
        (_, "occupy_low") => {
            // make sure descriptors 0,1,2 are occupied so that the library's own opens never land on them by accident
            for fd in 0..3 {
                if unsafe { libc::fcntl(fd, libc::F_GETFD) } < 0 {
                    let n = unsafe { libc::open(b"/\0".as_ptr() as *const c_char, libc::O_PATH | libc::O_CLOEXEC) };
                    if n >= 0 && n != fd { unsafe { libc::dup3(n, fd, libc::O_CLOEXEC); libc::close(n); } }
                }
            }
            Obs { ok: true, ..Default::default() }
        }
        (_, "seteuid") => {
            // change the effective (and with it the filesystem) uid of the running process, keeping the saved uid
            let r = unsafe { libc::seteuid(op.num.unwrap_or(0) as libc::uid_t) };
            if r != 0 { return harness_err(format!("seteuid failed: {}", std::io::Error::last_os_error())); }
            Obs { ok: true, ..Default::default() }
        }
        (_, "close_stdin") => { unsafe { libc::close(0) }; Obs { ok: true, ..Default::default() } }
        (_, "getpid") => Obs { ok: true, ret: Some(unsafe { libc::getpid() } as i64), ..Default::default() },
        (_, "fdtable") => Obs { ok: true, fds_after: fd_table(), ..Default::default() },
        (_, "limit_fds") => {
            // RLIMIT_NOFILE (soft) = highest open descriptor + 1 + num: the operation that follows finds exactly `num` free slots
            // above what is open now (plus whatever holes exist below)
            let top = fd_table().iter().map(|e| e.fd).max().unwrap_or(2) as u64;
            let mut lim = libc::rlimit { rlim_cur: 0, rlim_max: 0 };
            unsafe { libc::getrlimit(libc::RLIMIT_NOFILE, &mut lim) };
            lim.rlim_cur = std::cmp::min(lim.rlim_max, top + 1 + op.num.unwrap_or(0) as u64);
            if unsafe { libc::setrlimit(libc::RLIMIT_NOFILE, &lim) } != 0 { return harness_err("setrlimit failed".into()); }
            Obs { ok: true, ret: Some(lim.rlim_cur as i64), ..Default::default() }
        }
        (c, n) => harness_err(format!("unknown op {}:{}", if c { "c" } else { "rust" }, n)),
    }
}

fn run_op(st: &mut State, op: &Op) -> Obs {
    let before = if op.fdtable { fd_table() } else { vec![] };
    *PANIC_INFO.lock().unwrap() = None;
    let r = panic::catch_unwind(AssertUnwindSafe(|| run_op_inner(st, op)));
    let mut obs = match r {
        Ok(o) => o,
        Err(_) => Obs { ok: false, panic: Some(PANIC_INFO.lock().unwrap().clone().unwrap_or_else(|| "unknown panic".into())), ..Default::default() },
    };
    // descriptors returned but not kept are closed before the table is taken again
    if op.fdtable {
        obs.fds_before = before;
        obs.fds_after = fd_table();
    }
    release_errors(&mut obs);
    obs
}

fn main() {
    let args: Vec<String> = std::env::args().collect();
    if args.len() < 3 { die("usage: worker serve|oneshot <json>"); }
    panic::set_hook(Box::new(|info| {
        let loc = info.location().map(|l| format!("{}:{}", l.file(), l.line())).unwrap_or_default();
        let msg = if let Some(s) = info.payload().downcast_ref::<&str>() { s.to_string() } else if let Some(s) = info.payload().downcast_ref::<String>() { s.clone() } else { "?".into() };
        if let Ok(mut g) = PANIC_INFO.try_lock() { *g = Some(format!("{} @ {}", msg, loc)); }
    }));
    let mut st = State { defer: false, roots: HashMap::new(), handles: HashMap::new(), procs: HashMap::new() };
    match args[1].as_str() {
        "serve" => {
            let setup: Setup = serde_json::from_str(&args[2]).unwrap_or_else(|e| die(&format!("bad setup: {}", e)));
            apply_setup(&setup);
            // the protocol pipes are moved to high descriptor numbers so that checks may place handles on 0/1/2
            let (pin, pout) = unsafe { (libc::fcntl(0, libc::F_DUPFD_CLOEXEC, 900), libc::fcntl(1, libc::F_DUPFD_CLOEXEC, 901)) };
            if pin < 0 || pout < 0 { die("cannot relocate protocol descriptors"); }
            let mut stdin = std::io::BufReader::new(unsafe { std::fs::File::from_raw_fd(pin) });
            let mut out = unsafe { std::fs::File::from_raw_fd(pout) };
            let mut line = String::new();
            loop {
                line.clear();
                match stdin.read_line(&mut line) { Ok(0) => break, Ok(_) => {}, Err(_) => break }
                let req: Request = match serde_json::from_str(&line) { Ok(r) => r, Err(e) => die(&format!("bad request: {}", e)) };
                let mut resp = Response::default();
                for op in &req.ops { resp.obs.push(run_op(&mut st, op)); }
                let s = serde_json::to_string(&resp).unwrap();
                if out.write_all(s.as_bytes()).is_err() || out.write_all(b"\n").is_err() || out.flush().is_err() { break; }
            }
        }
        "oneshot" => {
            let spec: OneShot = serde_json::from_str(&args[2]).unwrap_or_else(|e| die(&format!("bad oneshot: {}", e)));
            apply_setup(&spec.setup);
            let mut warm = Vec::new();
            for op in &spec.warmup { warm.push(run_op(&mut st, op)); }
            let decoy = spec.setup.thread_decoy.clone();
            let body = move |mut st: State| -> State {
                let before = fd_table();
                st.defer = true;
                unsafe { libc::raise(libc::SIGSTOP) }; // BEGIN
                *PANIC_INFO.lock().unwrap() = None;
                let r = panic::catch_unwind(AssertUnwindSafe(|| run_op_inner(&mut st, &spec.op)));
                unsafe { libc::raise(libc::SIGSTOP) }; // END
                let mut obs = match r {
                    Ok(o) => o,
                    Err(_) => Obs { ok: false, panic: Some(PANIC_INFO.lock().unwrap().clone().unwrap_or_else(|| "unknown panic".into())), ..Default::default() },
                };
                st.defer = false;
                if obs.ok && obs.fd.is_none() {
                    if let Some(h) = st.handles.get(spec.op.keep.as_deref().unwrap_or("ret")) { obs.fd = Some(fd_info(h.as_raw_fd())); }
                }
                obs.fds_before = before;
                obs.fds_after = fd_table();
                release_errors(&mut obs);
                let resp = Response { obs: warm.into_iter().chain(std::iter::once(obs)).collect() };
                let s = serde_json::to_string(&resp).unwrap();
                let mut out = std::io::stdout();
                let _ = out.write_all(s.as_bytes());
                let _ = out.write_all(b"\n");
                let _ = out.flush();
                st
            };
            st = match decoy {
                None => body(st),
                Some(d) => {
                    // leader: look-alike descriptors on the numbers the thread will get from now on
                    // "first|rest": the first free number gets `first` (where a resolver would keep its copy of the root), the others `rest`
                    let (first, rest) = match d.split_once('|') { Some((a, b)) => (cstr(a), cstr(b)), None => (cstr(&d), cstr(&d)) };
                    let mut nums = Vec::new();
                    for i in 0..48 {
                        let c = if i == 0 { &first } else { &rest };
                        let fd = unsafe { libc::open(c.as_ptr(), libc::O_PATH | libc::O_DIRECTORY | libc::O_CLOEXEC) };
                        if fd < 0 { die("cannot open the look-alike directory"); }
                        nums.push(fd);
                    }
                    let h = std::thread::spawn(move || {
                        if unsafe { libc::unshare(libc::CLONE_FILES) } != 0 { die("unshare(CLONE_FILES) failed"); }
                        for n in &nums { unsafe { libc::close(*n) }; }
                        body(st)
                    });
                    match h.join() { Ok(st) => st, Err(_) => die("operation thread died") }
                }
            };
        }
        _ => die("unknown mode"),
    }
    // keep descriptors alive until here
    let _ = (&st.roots, &st.handles, &st.procs);
}
