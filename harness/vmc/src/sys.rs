//! Raw system helpers: the tmpfs jail in a private mount namespace, the kernel oracle (openat2), stat helpers.

use std::ffi::CString;
use std::os::unix::io::{AsRawFd, FromRawFd, OwnedFd, RawFd};

pub const JAIL: &str = "/verif/.jail";
/// Path of the Root as seen from inside the jail and from outside.
pub const ROOT_IN: &str = "/w/outer/parent/root";
pub const PARENT_IN: &str = "/w/outer/parent";
pub const OUTER_IN: &str = "/w/outer";

pub const TMPFS_MAGIC: i64 = 0x0102_1994;
pub const PROC_MAGIC: i64 = 0x9fa0;

pub const RESOLVE_NO_XDEV: u64 = 0x01;
pub const RESOLVE_NO_MAGICLINKS: u64 = 0x02;
pub const RESOLVE_NO_SYMLINKS: u64 = 0x04;
pub const RESOLVE_BENEATH: u64 = 0x08;
pub const RESOLVE_IN_ROOT: u64 = 0x10;

pub fn out(p: &str) -> String {
    format!("{}{}", JAIL, p)
}

pub fn cs(s: &str) -> CString {
    CString::new(proto::dec_path(s).into_iter().take_while(|&b| b != 0).collect::<Vec<u8>>()).unwrap()
}

/// a path string (possibly carrying raw bytes, see proto::dec_path) as an OsString for std::fs
pub fn os(s: &str) -> std::ffi::OsString {
    std::os::unix::ffi::OsStringExt::from_vec(proto::dec_path(s))
}

pub fn errno() -> i32 {
    std::io::Error::last_os_error().raw_os_error().unwrap_or(0)
}

#[derive(Debug)]
pub struct Mach(pub String);
impl std::fmt::Display for Mach {
    fn fmt(&self, f: &mut std::fmt::Formatter<'_>) -> std::fmt::Result { write!(f, "{}", self.0) }
}
pub type MResult<T> = Result<T, Mach>;
pub fn mach<T>(s: impl Into<String>) -> MResult<T> { Err(Mach(s.into())) }

/// Enter a private mount namespace and mount the sacrificial tmpfs (with its own /proc) on /verif/.jail.
pub fn enter_jail() -> MResult<()> { enter_jail_opts(None) }

/// `proc_opts`: mount options of the jail's /proc (it plays the role of "the host's /proc": hidepid=, subset=pid)
pub fn enter_jail_opts(proc_opts: Option<&str>) -> MResult<()> {
    unsafe {
        if libc::unshare(libc::CLONE_NEWNS) != 0 { return mach(format!("unshare(CLONE_NEWNS): errno {}", errno())); }
        let none = cs("none");
        let slash = cs("/");
        if libc::mount(none.as_ptr(), slash.as_ptr(), std::ptr::null(), libc::MS_REC | libc::MS_PRIVATE, std::ptr::null()) != 0 {
            return mach(format!("make / rprivate: errno {}", errno()));
        }
        std::fs::create_dir_all(JAIL).map_err(|e| Mach(format!("mkdir jail: {}", e)))?;
        let j = cs(JAIL);
        let tmpfs = cs("tmpfs");
        let opts = cs("mode=0755,size=512m");
        if libc::mount(tmpfs.as_ptr(), j.as_ptr(), tmpfs.as_ptr(), 0, opts.as_ptr() as *const libc::c_void) != 0 {
            return mach(format!("mount tmpfs on jail: errno {}", errno()));
        }
        std::fs::create_dir_all(out("/proc")).map_err(|e| Mach(format!("mkdir jail/proc: {}", e)))?;
        let p = cs(&out("/proc"));
        let proc_ = cs("proc");
        // "TMPFS": the caller's /proc is not a procfs at all (an empty tmpfs sits there)
        if proc_opts == Some("TMPFS") {
            if libc::mount(tmpfs.as_ptr(), p.as_ptr(), tmpfs.as_ptr(), 0, std::ptr::null()) != 0 { return mach(format!("mount tmpfs on jail/proc: errno {}", errno())); }
            std::fs::create_dir_all(out(ROOT_IN)).map_err(|e| Mach(format!("mkdir root: {}", e)))?;
            return assert_jail();
        }
        let po = proc_opts.map(cs);
        if libc::mount(proc_.as_ptr(), p.as_ptr(), proc_.as_ptr(), 0, po.as_ref().map(|c| c.as_ptr() as *const libc::c_void).unwrap_or(std::ptr::null())) != 0 {
            return mach(format!("mount proc in jail: errno {}", errno()));
        }
    }
    std::fs::create_dir_all(out(ROOT_IN)).map_err(|e| Mach(format!("mkdir root: {}", e)))?;
    assert_jail()?;
    Ok(())
}

/// Refuse to continue unless /verif/.jail is a tmpfs mount point (so that deletions can only hit the sacrificial fs).
pub fn assert_jail() -> MResult<()> {
    let c = cs(JAIL);
    let mut s: libc::statfs = unsafe { std::mem::zeroed() };
    if unsafe { libc::statfs(c.as_ptr(), &mut s) } != 0 || s.f_type as i64 != TMPFS_MAGIC {
        return mach("jail is not a tmpfs - refusing to run");
    }
    let a = lstat(JAIL).ok_or_else(|| Mach("stat jail".into()))?;
    let b = lstat("/verif").ok_or_else(|| Mach("stat /verif".into()))?;
    if a.dev == b.dev { return mach("jail is not a separate mount - refusing to run"); }
    Ok(())
}

#[derive(Clone, Copy, Debug, PartialEq, Eq, Hash, PartialOrd, Ord)]
pub struct St {
    pub dev: u64,
    pub ino: u64,
    pub mode: u32,
    pub nlink: u64,
    pub uid: u32,
    pub gid: u32,
    pub size: i64,
    pub rdev: u64,
}

impl St {
    pub fn fmt_type(&self) -> &'static str {
        match self.mode & libc::S_IFMT {
            libc::S_IFDIR => "dir",
            libc::S_IFREG => "file",
            libc::S_IFLNK => "symlink",
            libc::S_IFIFO => "fifo",
            libc::S_IFCHR => "chr",
            libc::S_IFBLK => "blk",
            libc::S_IFSOCK => "sock",
            _ => "?",
        }
    }
    pub fn is_dir(&self) -> bool { self.mode & libc::S_IFMT == libc::S_IFDIR }
    pub fn is_lnk(&self) -> bool { self.mode & libc::S_IFMT == libc::S_IFLNK }
    pub fn id(&self) -> (u64, u64) { (self.dev, self.ino) }
}

fn conv(st: &libc::stat) -> St {
    St { dev: st.st_dev, ino: st.st_ino, mode: st.st_mode, nlink: st.st_nlink, uid: st.st_uid, gid: st.st_gid, size: st.st_size, rdev: st.st_rdev }
}

pub fn lstat(p: &str) -> Option<St> {
    let c = cs(p);
    let mut st: libc::stat = unsafe { std::mem::zeroed() };
    if unsafe { libc::lstat(c.as_ptr(), &mut st) } != 0 { return None; }
    Some(conv(&st))
}

pub fn stat_follow(p: &str) -> Option<St> {
    let c = cs(p);
    let mut st: libc::stat = unsafe { std::mem::zeroed() };
    if unsafe { libc::stat(c.as_ptr(), &mut st) } != 0 { return None; }
    Some(conv(&st))
}

pub fn fstat(fd: RawFd) -> Option<St> {
    let mut st: libc::stat = unsafe { std::mem::zeroed() };
    if unsafe { libc::fstat(fd, &mut st) } != 0 { return None; }
    Some(conv(&st))
}

pub fn readlink(p: &str) -> Option<String> {
    std::fs::read_link(os(p)).ok().map(|x| proto::enc_bytes(std::os::unix::ffi::OsStrExt::as_bytes(x.as_os_str())))
}

pub fn open_path(p: &str) -> MResult<OwnedFd> {
    let c = cs(p);
    let fd = unsafe { libc::open(c.as_ptr(), libc::O_PATH | libc::O_CLOEXEC | libc::O_NOFOLLOW) };
    if fd < 0 { return mach(format!("open O_PATH {}: errno {}", p, errno())); }
    Ok(unsafe { OwnedFd::from_raw_fd(fd) })
}

#[repr(C)]
struct OpenHow {
    flags: u64,
    mode: u64,
    resolve: u64,
}

/// The kernel oracle: openat2(dirfd, path, {flags|O_CLOEXEC, resolve}). EAGAIN (global rename/mount seqlocks
/// disturbed by parallel shards) is retried; persistence is reported as Err(EAGAIN) to the caller.
pub fn openat2(dirfd: RawFd, path: &str, flags: u64, resolve: u64) -> Result<OwnedFd, i32> {
    // NUL-containing paths are not representable for the kernel; callers never pass them here
    let c = cs(path);
    let how = OpenHow { flags: flags | libc::O_CLOEXEC as u64, mode: 0, resolve };
    for i in 0..5000 {
        let r = unsafe { libc::syscall(libc::SYS_openat2, dirfd, c.as_ptr(), &how as *const OpenHow, std::mem::size_of::<OpenHow>()) };
        if r >= 0 { return Ok(unsafe { OwnedFd::from_raw_fd(r as RawFd) }); }
        let e = errno();
        if e != libc::EAGAIN { return Err(e); }
        if i > 50 { unsafe { libc::usleep(200) }; }
    }
    Err(libc::EAGAIN)
}

pub fn readlink_fd(fd: RawFd) -> Result<String, i32> {
    let mut buf = vec![0u8; 8192];
    let n = unsafe { libc::readlinkat(fd, b"\0".as_ptr() as *const libc::c_char, buf.as_mut_ptr() as *mut libc::c_char, buf.len()) };
    if n < 0 { return Err(errno()); }
    Ok(proto::enc_bytes(&buf[..n as usize]))
}

pub fn getfl(fd: RawFd) -> i32 { unsafe { libc::fcntl(fd, libc::F_GETFL) } }

/// Remove everything below `dir` (which must be inside the jail) but keep `dir` itself.
pub fn clear_dir(dir: &str) -> MResult<()> {
    if !dir.starts_with("/verif/.jail/") { return mach(format!("refusing to clear {}", dir)); }
    assert_jail()?;
    fn clear(dir: &std::path::Path) -> MResult<()> {
        let rd = match std::fs::read_dir(dir) { Ok(r) => r, Err(e) => return mach(format!("read_dir {:?}: {}", dir, e)) };
        for ent in rd {
            let ent = ent.map_err(|e| Mach(format!("readdir: {}", e)))?;
            let p = ent.path();
            let md = std::fs::symlink_metadata(&p).map_err(|e| Mach(format!("lstat {:?}: {}", p, e)))?;
            if md.is_dir() {
                // make sure we can descend even into mode-0 dirs
                let _ = std::fs::set_permissions(&p, std::os::unix::fs::PermissionsExt::from_mode(0o700));
                clear(&p)?;
                std::fs::remove_dir(&p).map_err(|e| Mach(format!("rmdir {:?}: {}", p, e)))?;
            } else {
                std::fs::remove_file(&p).map_err(|e| Mach(format!("unlink {:?}: {}", p, e)))?;
            }
        }
        Ok(())
    }
    clear(std::path::Path::new(&os(dir)))
}

pub fn renameat2(old: &str, new: &str, flags: u32) -> Result<(), i32> {
    let a = cs(old);
    let b = cs(new);
    let r = unsafe { libc::syscall(libc::SYS_renameat2, libc::AT_FDCWD, a.as_ptr(), libc::AT_FDCWD, b.as_ptr(), flags) };
    if r == 0 { Ok(()) } else { Err(errno()) }
}

pub fn now() -> std::time::Instant { std::time::Instant::now() }

pub fn fd_of(o: &OwnedFd) -> RawFd { o.as_raw_fd() }

pub fn errname(e: i32) -> String {
    let n = match e {
        libc::ENOENT => "ENOENT", libc::ENOTDIR => "ENOTDIR", libc::ELOOP => "ELOOP", libc::EXDEV => "EXDEV", libc::EINVAL => "EINVAL",
        libc::EACCES => "EACCES", libc::EISDIR => "EISDIR", libc::EEXIST => "EEXIST", libc::ENOTEMPTY => "ENOTEMPTY", libc::EAGAIN => "EAGAIN",
        libc::ENAMETOOLONG => "ENAMETOOLONG", libc::ENXIO => "ENXIO", libc::EPERM => "EPERM", libc::EBUSY => "EBUSY", libc::EMFILE => "EMFILE",
        libc::ENFILE => "ENFILE", libc::ENOMEM => "ENOMEM", libc::EIO => "EIO", libc::EINTR => "EINTR", libc::ENOSYS => "ENOSYS", libc::EBADF => "EBADF",
        libc::ENOSPC => "ENOSPC", libc::EROFS => "EROFS", libc::EDQUOT => "EDQUOT", libc::E2BIG => "E2BIG", libc::EOPNOTSUPP => "EOPNOTSUPP", libc::ENODEV => "ENODEV",
        libc::EMLINK => "EMLINK", libc::ETXTBSY => "ETXTBSY", libc::EFAULT => "EFAULT", libc::ESRCH => "ESRCH",
        _ => return format!("E{}", e),
    };
    n.to_string()
}
