//! Property drivers on top of sysmc: C02 (lookups under attack), C03 (mutating ops under attack + input sweep),
//! C05 (syscall discipline), C10 (fault enumeration), C11 (descriptor table).

use crate::ev::*;
use crate::gen::*;
use crate::pt::*;
use crate::scen::*;
use crate::sys::*;
use crate::sysmc::*;
use crate::tree::*;
use crate::xplore::*;
use proto::*;
use serde_json::{json, Value};
use std::collections::{BTreeMap, BTreeSet};

pub struct World {
    pub before: Snap,
    pub labels: BTreeMap<(u64, u64), String>,
    pub inside0: BTreeSet<(u64, u64)>,
}

pub fn fresh_world() -> MResult<World> {
    build_race_world()?;
    let before = snapshot(&out("/w"))?;
    let labels = labels(&before, "");
    let root_snap = snapshot(&out(ROOT_IN))?;
    Ok(World { before, labels, inside0: inodes(&root_snap) })
}

fn lab(w: &World, id: (u64, u64)) -> String {
    w.labels.get(&id).map(|s| s.trim_start_matches("outer/parent/").to_string()).unwrap_or_else(|| format!("new-inode"))
}

/// canonical, replay-stable text of an execution's outcome
pub fn outcome_text(w: &World, out: &ExecOut, wi: usize) -> String {
    match out.final_obs(wi) {
        None => format!("DIED(sig={:?},exit={:?})", out.killed.get(wi).cloned().flatten(), out.exit.get(wi).cloned().flatten()),
        Some(o) => {
            if let Some(p) = &o.panic { return format!("PANIC({})", p); }
            if o.ok {
                match (&o.fd, &o.text) {
                    (Some(fd), _) => format!("ok[{}]", lab(w, (fd.dev, fd.ino))),
                    (None, Some(t)) => format!("ok{:?}", t),
                    _ => "ok".into(),
                }
            } else { format!("{}/{}", errname(o.errno.unwrap_or(-1)), o.kind.clone().unwrap_or_default()) }
        }
    }
}

fn forced_of(ch: &Chooser) -> Vec<(u32, String)> { ch.trace.iter().map(|p| (p.chosen, p.label.clone())).collect() }

fn forced_from_json(v: &Value) -> Vec<(u32, String)> {
    v.as_array().map(|a| a.iter().map(|x| (x[0].as_u64().unwrap_or(0) as u32, x[1].as_str().unwrap_or("").to_string())).collect()).unwrap_or_default()
}

/// Monitor shared by C02/C03/C10: containment at syscall level.
/// Returns (key, description) of the first problem.
pub fn containment_monitor(w: &World, out: &ExecOut, check_opens: bool) -> Option<(String, String)> {
    let tree_dev = w.before.get("").map(|n| n.dev).unwrap_or(0);
    let inside = |id: &FdId| out.ever_inside.contains(&(id.dev, id.ino));
    for ev in &out.events {
        if ev.rval < 0 && ev.injected.is_none() { /* failed calls still count: the attempt was made */ }
        let mutator = matches!(ev.name.as_str(), "unlinkat" | "mkdirat" | "mknodat" | "symlinkat" | "linkat" | "renameat" | "renameat2")
            || (ev.name == "openat" && ev.flags.unwrap_or(0) & (libc::O_CREAT | libc::O_TRUNC) as u64 != 0);
        let opener = matches!(ev.name.as_str(), "openat" | "openat2");
        let legacy_mut = matches!(ev.name.as_str(), "unlink" | "rmdir" | "mkdir" | "mknod" | "rename" | "link" | "symlink" | "creat" | "truncate" | "chmod" | "chown" | "lchown");
        if legacy_mut {
            return Some((format!("absolute-mutator:{}", ev.name), format!("library issued {} (not relative to a verified directory)", ev.brief())));
        }
        for (fd, id) in [(ev.fd, &ev.fdid), (ev.fd2, &ev.fdid2)] {
            if let (Some(fd), Some(id)) = (fd, id) {
                if id.dev != tree_dev || id.fstype != TMPFS_MAGIC { continue; }
                if (mutator || (check_opens && opener)) && ev.path.is_some() && !inside(id) {
                    return Some((format!("outside-parent:{}", ev.name), format!("{} acts on an entry of directory {} ({}) which was never inside the root", ev.brief(), fd, lab(w, (id.dev, id.ino)))));
                }
            }
            if fd == Some(libc::AT_FDCWD) && (mutator || opener) && ev.path.as_deref().map(|p| p.starts_with("/w") || !p.starts_with('/')).unwrap_or(false) {
                return Some((format!("cwd-or-absolute:{}", ev.name), format!("{} uses AT_FDCWD/absolute path inside the tree's filesystem", ev.brief())));
            }
        }
        // link bodies are only ever read from objects that were inside
        if ev.name == "readlinkat" && ev.path.as_deref() == Some("") && ev.rval >= 0 {
            if let Some(id) = &ev.fdid {
                if id.dev == tree_dev && id.fstype == TMPFS_MAGIC && !inside(id) {
                    return Some(("linkbody-outside".into(), format!("read the body of symlink {} which was never inside the root", lab(w, (id.dev, id.ino)))));
                }
            }
        }
    }
    None
}

/// Effect-level frame condition: never-inside inodes are all still there and unchanged; every new inode has an ever-inside parent.
pub fn outside_effects(w: &World, out: &ExecOut) -> MResult<Option<(String, String)>> {
    let after = snapshot(&crate::sys::out("/w"))?;
    let mut after_by_id: BTreeMap<(u64, u64), (&String, &Node)> = BTreeMap::new();
    for (p, n) in &after { after_by_id.entry((n.dev, n.ino)).or_insert((p, n)); }
    for (p, n) in &w.before {
        let id = (n.dev, n.ino);
        if out.ever_inside.contains(&id) { continue; }
        match after_by_id.get(&id) {
            None => return Ok(Some(("outside-removed".into(), format!("object {} (never inside the root) was removed", p)))),
            Some((_, m)) => {
                if m.typ != n.typ || m.perm != n.perm || m.body != n.body || (n.typ != "dir" && (m.size != n.size || m.nlink != n.nlink)) {
                    return Ok(Some(("outside-modified".into(), format!("object {} (never inside the root) was modified: {:?} -> {:?}", p, n, m))));
                }
            }
        }
    }
    let before_ids: BTreeSet<(u64, u64)> = inodes(&w.before);
    for (p, n) in &after {
        if before_ids.contains(&(n.dev, n.ino)) { continue; }
        // new inode: its parent directory must have been inside
        let parent = match p.rfind('/') { Some(i) => &p[..i], None => "" };
        if let Some(pn) = after.get(parent) {
            if !out.ever_inside.contains(&(pn.dev, pn.ino)) {
                return Ok(Some(("outside-created".into(), format!("new object {} was created in {} which was never inside the root", p, parent))));
            }
        }
    }
    // the jail root's decoys
    for d in ["secret", "a", "e", "sibling"] {
        if lstat(&format!("{}/{}", JAIL, d)).is_none() { return Ok(Some(("outside-removed".into(), format!("jail-root decoy /{} was removed", d)))); }
    }
    Ok(None)
}

pub struct SysScope {
    pub scenarios: Vec<Scenario>,
    pub bound: u32,
    pub full_alphabet: bool,
    pub max_exec: u64,
}

pub fn scope(prop: &str, tier: &str) -> SysScope {
    let th = tier == "thorough";
    match prop {
        "C02" => SysScope { scenarios: lookup_scenarios(th), bound: if th { 2 } else { 1 }, full_alphabet: !th, max_exec: if th { 60_000 } else { 3_000 } },
        "C03" => SysScope { scenarios: mutating_scenarios(th), bound: if th { 2 } else { 1 }, full_alphabet: !th, max_exec: if th { 60_000 } else { 3_000 } },
        _ => SysScope { scenarios: vec![], bound: 0, full_alphabet: false, max_exec: 0 },
    }
}

pub fn n_items(prop: &str, tier: &str) -> usize { scope(prop, tier).scenarios.len() }

pub fn run_item(prop: &str, tier: &str, idx: usize, only: Option<&Value>) -> MResult<ItemResult> {
    let sc = scope(prop, tier);
    let scen = sc.scenarios.get(idx).ok_or_else(|| Mach("bad item".into()))?.clone();
    enter_jail()?;
    install_alarm_handler();
    let mut res = ItemResult::default();
    let muts = mutations_for(&scen.path, sc.full_alphabet);
    let mut states: BTreeSet<u64> = BTreeSet::new();
    let mut nontrivial: BTreeSet<u64> = BTreeSet::new();
    let mut undisturbed_sigs: Option<Vec<String>> = None;

    let mut one = |ch: &mut Chooser, res: &mut ItemResult, confirm: bool| -> MResult<Option<(String, String, String)>> {
        let w = fresh_world()?;
        let cfg = ExecCfg { specs: vec![oneshot(&scen.backend, scen.op.clone(), true)], mode: Mode::Attack(muts.clone()), root_out: out(ROOT_IN), horizon: 200_000, timeout_s: 60 };
        let eo = execute(&cfg, ch)?;
        let otext = outcome_text(&w, &eo, 0);
        let applied: Vec<String> = eo.applied.iter().map(|(i, m)| format!("{}@{}", m, i)).collect();
        if !confirm {
            res.evaluations += 1;
            res.transitions += eo.events.len() as u64;
            let mut tstate = String::new();
            let mut ai = 0;
            for (i, _) in eo.events.iter().enumerate() {
                while ai < eo.applied.len() && eo.applied[ai].0 <= i { tstate += &eo.applied[ai].1; ai += 1; }
                states.insert(hash64(&format!("{}#{}", tstate, i)));
            }
            res.outcome(format!("{} after [{}]", otext, eo.applied.iter().map(|(_, m)| m.clone()).collect::<Vec<_>>().join(",")));
            if !eo.applied.is_empty() && !otext.starts_with("ok[") || eo.applied.len() > 1 { nontrivial.insert(hash64(&format!("{:?}", applied))); } else if !eo.applied.is_empty() { nontrivial.insert(hash64(&format!("{:?}", applied))); }
            res.max("choice_points_per_execution", ch.trace.len() as u64);
            if eo.applied.len() == 1 && res.samples.len() < 2 { res.sample(json!({"scenario": scen.name, "mutation": applied, "result": otext, "choices": ch.choices()})); }
        }
        // ---- verdict
        let mut verdict: Option<(String, String)> = None;
        if eo.timeout || eo.horizon_hit { verdict = Some(("hang".into(), format!("did not terminate within the horizon (timeout={}, horizon={})", eo.timeout, eo.horizon_hit))); }
        else {
            match eo.final_obs(0) {
                None => verdict = Some(("crash".into(), format!("worker died: {}", otext))),
                Some(o) => {
                    if let Some(p) = &o.panic { verdict = Some((format!("panic:{}", p.rsplit('@').next().unwrap_or("").trim()), format!("panic: {}", p))); }
                    else if o.ok {
                        if let Some(fd) = &o.fd {
                            // a pre-existing object that was never reachable from the root. (An inode the library itself
                            // created during the call is judged through its parent directory by the monitors below.)
                            if !eo.ever_inside.contains(&(fd.dev, fd.ino)) && w.labels.contains_key(&(fd.dev, fd.ino)) {
                                verdict = Some(("escape".into(), format!("returned {} which was never inside the root", lab(&w, (fd.dev, fd.ino)))));
                            }
                        }
                    }
                }
            }
        }
        if verdict.is_none() { verdict = containment_monitor(&w, &eo, prop == "C03"); }
        if verdict.is_none() && prop == "C03" { verdict = outside_effects(&w, &eo)?; }
        Ok(verdict.map(|(k, d)| (k, format!("{} under attacker schedule [{}]: {}", scen.name, applied.join(", "), d), otext)))
    };

    if let Some(o) = only {
        let mut ch = Chooser::new(forced_from_json(&o["choices"]));
        if let Some((k, d, _)) = one(&mut ch, &mut res, false)? { res.violate(format!("{}:{}", scen.backend, k), d, o.clone()); }
        return Ok(res);
    }

    // determinism self-test: the undisturbed execution twice, identical syscall signatures. A run in which the kernel
    // answered EAGAIN to openat2 by itself (global rename/mount seqlocks disturbed by anything else on the machine)
    // is not a sample of the library's determinism and is repeated.
    let mut tries = 0;
    while tries < 20 {
        tries += 1;
        let _w = fresh_world()?;
        let cfg = ExecCfg { specs: vec![oneshot(&scen.backend, scen.op.clone(), true)], mode: Mode::Trace, root_out: out(ROOT_IN), horizon: 200_000, timeout_s: 60 };
        let eo = execute(&cfg, &mut Chooser::new(vec![]))?;
        if eo.events.iter().any(|e| e.name == "openat2" && e.rval == -(libc::EAGAIN as i64)) { continue; }
        let sigs: Vec<String> = eo.events.iter().map(|e| e.sig()).collect();
        match &undisturbed_sigs {
            None => undisturbed_sigs = Some(sigs),
            Some(prev) => {
                if *prev != sigs {
                    let d = prev.iter().zip(sigs.iter()).position(|(a, b)| a != b).unwrap_or(prev.len().min(sigs.len()));
                    return mach(format!("DETERMINISM SELF-TEST FAILED for {}: two undisturbed runs differ at syscall {} ({:?} vs {:?}; lengths {} / {})", scen.name, d, prev.get(d), sigs.get(d), prev.len(), sigs.len()));
                }
                break;
            }
        }
    }

    let mut pending: Vec<(Vec<(u32, String)>, String, String, String)> = Vec::new();
    let stats = explore(sc.bound, sc.max_exec, |ch| {
        if let Some((k, d, otext)) = one(ch, &mut res, false)? { pending.push((forced_of(ch), k, d, otext)); }
        Ok(())
    })?;
    // confirm every failing execution by replaying its choice list once
    for (forced, k, d, otext) in pending {
        let mut confirmed = false;
        let mut last = None;
        for _ in 0..3 {
            let mut ch = Chooser::new(forced.clone());
            let again = one(&mut ch, &mut res, true)?;
            if let Some((k2, _, o2)) = &again { if *k2 == k && *o2 == otext { confirmed = true; break; } }
            last = again.map(|x| (x.0, x.2));
        }
        if confirmed {
            res.violate(format!("{}:{}", scen.backend, k), d, json!({"engine": "sysmc", "item": idx, "scenario": scen.name, "choices": forced}));
        } else {
            return mach(format!("NON-REPRODUCIBLE failure in {}: first [{}] {}, on replay {:?}", scen.name, k, otext, last));
        }
    }
    res.states = states.len() as u64;
    res.traces_validated = res.evaluations;
    res.nontrivial = nontrivial.len() as u64;
    res.bound_completed = Some(if stats.capped { 0 } else { sc.bound as u64 });
    if stats.capped { res.caps_hit.push(format!("{}: execution cap {} reached at bound {}", scen.name, sc.max_exec, sc.bound)); }
    res.count("executions", stats.executions);
    res.count("mutations_in_alphabet", muts.len() as u64);
    Ok(res)
}

pub fn report(prop: &str, tier: &str) -> Report {
    let sc = scope(prop, tier);
    Report {
        level: "model_checking",
        rule: format!("{} scenarios (operation x path x backend on the race tree T_race); in every scenario every attacker mutation of the alphabet ({} alphabet: exchange with a symlink to a decoy / with an outside directory / with a file, move out of the root and back, replace a link on the path, remove) is tried immediately before every tree-relevant syscall of the library, all schedules with <= {} mutations; non-trivial = distinct non-empty mutation placements; states = distinct (tree state, syscall index) pairs",
            sc.scenarios.len(), if sc.full_alphabet { "full" } else { "core" }, sc.bound),
        assumptions: vec![
            "races inside a single openat2 call are the kernel's business; schedules are explored between syscalls".into(),
            "the attacker cannot rename the root directory or its ancestors (outside the library's threat model)".into(),
            "partial-order reduction: mutations are placed only before syscalls that read or write the tree's namespace (any other placement commutes)".into(),
            "fstat on an already open descriptor is independent of rename/exchange/unlink mutations".into(),
            "Linux 6.18, tmpfs".into(),
        ],
        exhaustive: true,
        extra: json!({"scenarios": sc.scenarios.len(), "deviation_bound": sc.bound, "traces_rule": "every explored trace is an execution of the real implementation under ptrace; failing traces are replayed once and must reproduce"}),
    }
}

/// debug helper: print the syscall trace of one undisturbed execution
pub fn trace_cmd(backend: &str, op: Op, warm: bool) -> MResult<()> {
    enter_jail()?;
    install_alarm_handler();
    let w = fresh_world()?;
    let cfg = ExecCfg { specs: vec![oneshot(backend, op, warm)], mode: Mode::Trace, root_out: out(ROOT_IN), horizon: 500_000, timeout_s: 60 };
    let t0 = now();
    let eo = execute(&cfg, &mut Chooser::new(vec![]))?;
    for (i, e) in eo.events.iter().enumerate() {
        println!("{:4} {} {}{}", i, if e.tree_rel { "T" } else { " " }, e.brief(), e.fdid.as_ref().map(|d| format!("   <fd:{} {}>", d.link, if d.fstype == PROC_MAGIC { "proc" } else { "" })).unwrap_or_default());
    }
    println!("result: {}  ({} syscalls, {:.1} ms)", outcome_text(&w, &eo, 0), eo.events.len(), t0.elapsed().as_secs_f64() * 1e3);
    if let Some(o) = eo.final_obs(0) { println!("obs: {}", serde_json::to_string(o).unwrap()); }
    Ok(())
}
