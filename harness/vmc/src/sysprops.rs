//! Property drivers on top of sysmc: C02 (lookups under attack), C03 (mutating ops under attack + input sweep),
//! C05 (syscall discipline), C10 (fault enumeration), C11 (descriptor table).

use crate::ev::*;
use crate::gen::*;
use crate::pt::*;
use crate::scen::*;
use crate::sys::*;
use crate::sysmc::*;
use crate::tree::*;
use crate::xplore::*;
use proto::*;
use serde_json::{json, Value};
use std::collections::{BTreeMap, BTreeSet};

/// 1 = the undisturbed execution of the item's scenario succeeded, 0 = it failed, -1 = unknown
pub static BASELINE_OK: std::sync::atomic::AtomicI8 = std::sync::atomic::AtomicI8::new(-1);

pub struct World {
    pub before: Snap,
    pub labels: BTreeMap<(u64, u64), String>,
    pub inside0: BTreeSet<(u64, u64)>,
}

pub fn fresh_world() -> MResult<World> {
    build_race_world()?;
    let before = snapshot(&out("/w"))?;
    let labels = labels(&before, "");
    let root_snap = snapshot(&out(ROOT_IN))?;
    Ok(World { before, labels, inside0: inodes(&root_snap) })
}

fn lab(w: &World, id: (u64, u64)) -> String {
    w.labels.get(&id).map(|s| s.trim_start_matches("outer/parent/").to_string()).unwrap_or_else(|| "new-inode".to_string())
}

/// canonical, replay-stable text of an execution's outcome
pub fn outcome_text(w: &World, out: &ExecOut, wi: usize) -> String {
    match out.final_obs(wi) {
        None => format!("DIED(sig={:?},exit={:?})", out.killed.get(wi).cloned().flatten(), out.exit.get(wi).cloned().flatten()),
        Some(o) => {
            if let Some(p) = &o.panic { return format!("PANIC({})", p); }
            if o.ok {
                match (&o.fd, &o.text) {
                    (Some(fd), _) => format!("ok[{}]", lab(w, (fd.dev, fd.ino))),
                    (None, Some(t)) => format!("ok{:?}", t),
                    _ => "ok".into(),
                }
            } else { format!("{}/{}", errname(o.errno.unwrap_or(-1)), o.kind.clone().unwrap_or_default()) }
        }
    }
}

fn forced_of(ch: &Chooser) -> Vec<(u32, String)> { ch.trace.iter().map(|p| (p.chosen, p.label.clone())).collect() }

fn forced_from_json(v: &Value) -> Vec<(u32, String)> {
    v.as_array().map(|a| a.iter().map(|x| (x[0].as_u64().unwrap_or(0) as u32, x[1].as_str().unwrap_or("").to_string())).collect()).unwrap_or_default()
}

/// Monitor shared by C02/C03/C10: containment at syscall level. Returns (key, description) of the first problem.
pub fn containment_monitor(w: &World, out: &ExecOut, check_opens: bool) -> Option<(String, String)> {
    let tree_dev = w.before.get("").map(|n| n.dev).unwrap_or(0);
    let inside = |id: &FdId| out.ever_inside.contains(&(id.dev, id.ino));
    for ev in &out.events {
        let mutator = matches!(ev.name.as_str(), "unlinkat" | "mkdirat" | "mknodat" | "symlinkat" | "linkat" | "renameat" | "renameat2")
            || (ev.name == "openat" && ev.flags.unwrap_or(0) & (libc::O_CREAT | libc::O_TRUNC) as u64 != 0);
        let opener = matches!(ev.name.as_str(), "openat" | "openat2");
        let legacy_mut = matches!(ev.name.as_str(), "unlink" | "rmdir" | "mkdir" | "mknod" | "rename" | "link" | "symlink" | "creat" | "truncate" | "chmod" | "chown" | "lchown");
        if legacy_mut {
            return Some((format!("absolute-mutator:{}", ev.name), format!("library issued {} (not relative to a verified directory)", ev.brief())));
        }
        for (fd, id) in [(ev.fd, &ev.fdid), (ev.fd2, &ev.fdid2)] {
            if let (Some(fd), Some(id)) = (fd, id) {
                if id.dev != tree_dev || id.fstype != TMPFS_MAGIC { continue; }
                if (mutator || (check_opens && opener)) && ev.path.is_some() && !inside(id) {
                    return Some((format!("outside-parent:{}", ev.name), format!("{} acts on an entry of directory {} ({}) which was never inside the root", ev.brief(), fd, lab(w, (id.dev, id.ino)))));
                }
            }
            if fd == Some(libc::AT_FDCWD) && (mutator || opener) && ev.path.as_deref().map(|p| p.starts_with("/w") || !p.starts_with('/')).unwrap_or(false) && ev.path.as_deref() != Some(".") {
                return Some((format!("cwd-or-absolute:{}", ev.name), format!("{} uses AT_FDCWD/absolute path inside the tree's filesystem", ev.brief())));
            }
        }
        // link bodies are only ever read from objects that were inside
        if ev.name == "readlinkat" && ev.path.as_deref() == Some("") && ev.rval >= 0 {
            if let Some(id) = &ev.fdid {
                if id.dev == tree_dev && id.fstype == TMPFS_MAGIC && !inside(id) {
                    return Some(("linkbody-outside".into(), format!("read the body of symlink {} which was never inside the root", lab(w, (id.dev, id.ino)))));
                }
            }
        }
    }
    None
}

/// Effect-level frame condition: never-inside inodes are all still there and unchanged; every new inode has an ever-inside parent.
pub fn outside_effects(w: &World, out: &ExecOut) -> MResult<Option<(String, String)>> {
    let after = snapshot(&crate::sys::out("/w"))?;
    let mut after_by_id: BTreeMap<(u64, u64), (&String, &Node)> = BTreeMap::new();
    for (p, n) in &after { after_by_id.entry((n.dev, n.ino)).or_insert((p, n)); }
    for (p, n) in &w.before {
        let id = (n.dev, n.ino);
        if out.ever_inside.contains(&id) || out.exposed.contains(&id) { continue; }
        match after_by_id.get(&id) {
            None => return Ok(Some(("outside-removed".into(), format!("object {} (never inside the root) was removed", p)))),
            Some((_, m)) => {
                if m.typ != n.typ || m.perm != n.perm || m.body != n.body || (n.typ != "dir" && (m.size != n.size || m.nlink != n.nlink)) {
                    return Ok(Some(("outside-modified".into(), format!("object {} (never inside the root) was modified: {:?} -> {:?}", p, n, m))));
                }
            }
        }
    }
    let before_ids: BTreeSet<(u64, u64)> = inodes(&w.before);
    for (p, n) in &after {
        if before_ids.contains(&(n.dev, n.ino)) { continue; }
        // created inside (the supervisor recorded it at creation time) and moved elsewhere by the attacker afterwards
        if out.ever_inside.contains(&(n.dev, n.ino)) { continue; }
        let parent = match p.rfind('/') { Some(i) => &p[..i], None => "" };
        if let Some(pn) = after.get(parent) {
            if !out.ever_inside.contains(&(pn.dev, pn.ino)) {
                return Ok(Some(("outside-created".into(), format!("new object {} was created in {} which was never inside the root", p, parent))));
            }
        }
    }
    for d in ["secret", "a", "e", "sibling"] {
        if lstat(&format!("{}/{}", JAIL, d)).is_none() { return Ok(Some(("outside-removed".into(), format!("jail-root decoy /{} was removed", d)))); }
    }
    Ok(None)
}

// ------------------------------------------------------------------------------------------------ C05 discipline automaton

const O_CLOEXEC_: u64 = libc::O_CLOEXEC as u64;
const O_NOFOLLOW_: u64 = libc::O_NOFOLLOW as u64;
const O_PATH_: u64 = libc::O_PATH as u64;
const O_NOCTTY_: u64 = libc::O_NOCTTY as u64;

/// ops in which libpathrs is entitled to follow one trailing procfs link (R3)
fn follow_allowed(op: &Op) -> bool {
    let nofollow = op.flags.unwrap_or(0) & libc::O_NOFOLLOW as i64 != 0;
    matches!(op.name.as_str(), "reopen" | "open_subpath" | "mkdir_all") || (op.name == "proc_open_follow" && !nofollow) || (op.api == "c" && op.name == "proc_open" && op.flags.unwrap_or(0) & libc::O_NOFOLLOW as i64 == 0)
}

/// Returns all rule violations (key, description) of one execution.
pub fn discipline_monitor(op: &Op, out: &ExecOut, counts: &mut BTreeMap<String, u64>) -> Vec<(String, String)> {
    let mut v = Vec::new();
    let root_path = op.root.clone().unwrap_or_default();
    for ev in &out.events {
        let name = ev.name.as_str();
        if matches!(name, "gettid" | "getpid" | "tgkill") { continue; }
        let maskp = |p: &str| -> String { let mut o = String::new(); let mut ind = false; for c in p.chars() { if c.is_ascii_digit() { if !ind { o.push('#'); ind = true; } } else { ind = false; o.push(c); } } o };
        let abs = ev.path.as_deref().filter(|p| p.starts_with('/')).map(|p| format!(":{}", maskp(p))).unwrap_or_default();
        // multi-component relative paths on procfs are keyed by their (digit-masked) spelling too, so that a known finding about one
        // probe does not hide another one
        let rel = ev.path.as_deref().filter(|p| !p.starts_with('/') && p.contains('/') && ev.fdid.as_ref().map(|i| i.fstype) == Some(PROC_MAGIC)).map(|p| format!(":{}", maskp(p))).unwrap_or_default();
        let mut bad = |rule: &str, why: &str| v.push((format!("{}:{}{}", rule, name, if rule.starts_with("R4") || rule.starts_with("R1-dirfd") { abs.clone() } else if rule == "R1-single" { rel.clone() } else { String::new() }), format!("{} violates {}: {}", ev.brief(), rule, why)));
        // descriptor-creating calls: close-on-exec
        match name {
            "dup" | "dup2" => bad("cloexec", "dup/dup2 cannot set close-on-exec"),
            "dup3" => if ev.args[2] & O_CLOEXEC_ == 0 { bad("cloexec", "dup3 without O_CLOEXEC") },
            "fcntl" => if ev.args[1] as i32 == libc::F_DUPFD { bad("cloexec", "F_DUPFD instead of F_DUPFD_CLOEXEC") },
            "fsopen" => if ev.args[1] & 1 == 0 { bad("cloexec", "fsopen without FSOPEN_CLOEXEC") },
            "fsmount" => if ev.args[1] & 1 == 0 { bad("cloexec", "fsmount without FSMOUNT_CLOEXEC") },
            "open_tree" => if ev.args[2] & O_CLOEXEC_ == 0 { bad("cloexec", "open_tree without OPEN_TREE_CLOEXEC") },
            "openat" | "open" => {
                let f = ev.flags.unwrap_or(0);
                if f & O_CLOEXEC_ == 0 { bad("cloexec", "open without O_CLOEXEC"); }
                // a directory can never be a terminal: O_DIRECTORY opens cannot acquire a controlling tty
                if f & O_PATH_ == 0 && f & O_NOCTTY_ == 0 && f & libc::O_DIRECTORY as u64 == 0 { bad("noctty", "non-O_PATH open without O_NOCTTY"); }
            }
            "openat2" => if let Some((f, _, _, _)) = ev.how {
                if f & O_CLOEXEC_ == 0 { bad("cloexec", "openat2 without O_CLOEXEC"); }
                if f & O_PATH_ == 0 && f & O_NOCTTY_ == 0 && f & libc::O_DIRECTORY as u64 == 0 { bad("noctty", "non-O_PATH openat2 without O_NOCTTY"); }
            },
            _ => {}
        }
        let path = match &ev.path { Some(p) => p.clone(), None => { *counts.entry("nopath".into()).or_insert(0) += 1; continue; } };
        if matches!(name, "fsopen" | "fsconfig") { continue; } // "path" here is a filesystem name / option key
        // legacy syscalls take cwd-relative or absolute paths
        if ev.fd.is_none() {
            bad("R1-dirfd", "path syscall without a directory descriptor");
            continue;
        }
        let fd = ev.fd.unwrap();
        if fd == libc::AT_FDCWD {
            // (R4) entry points
            let ok = (name == "openat" && (path == root_path || path == "/proc") && ev.flags.unwrap_or(0) & O_PATH_ != 0)
                || (name == "open_tree" && path == "/proc")
                || (name == "openat2" && path == ".")            // feature probe, first use only
                || (name == "renameat2" && path == ".");          // feature probe
            if ok { *counts.entry("R4".into()).or_insert(0) += 1; } else { bad("R4-cwd", "AT_FDCWD / absolute path that is not a documented entry point"); }
            continue;
        }
        let fst = ev.fdid.as_ref().map(|i| i.fstype).unwrap_or(0);
        if name == "openat2" {
            let (_, _, r, _) = ev.how.unwrap_or((0, 0, 0, 0));
            let need = if fst == PROC_MAGIC { RESOLVE_BENEATH | RESOLVE_NO_XDEV | RESOLVE_NO_MAGICLINKS } else { RESOLVE_IN_ROOT | RESOLVE_NO_MAGICLINKS };
            if r & need != need { bad("R2-resolve", &format!("openat2 resolve flags 0x{:x} lack 0x{:x}", r, need)); } else { *counts.entry("R2".into()).or_insert(0) += 1; }
            continue;
        }
        if path.is_empty() { *counts.entry("empty-path".into()).or_insert(0) += 1; continue; }
        if path.contains('/') { bad("R1-single", "multi-component path outside openat2"); continue; }
        let dotty = path == "." || path == "..";
        match name {
            "mkdirat" | "mknodat" | "unlinkat" | "symlinkat" | "renameat" | "renameat2" | "readlinkat" => { *counts.entry("R1".into()).or_insert(0) += 1; }
            "linkat" => if ev.args[4] & 0x400 != 0 { bad("R1-nofollow", "linkat with AT_SYMLINK_FOLLOW") } else { *counts.entry("R1".into()).or_insert(0) += 1; },
            "openat" => {
                let f = ev.flags.unwrap_or(0);
                if f & O_NOFOLLOW_ != 0 || dotty { *counts.entry("R1".into()).or_insert(0) += 1; }
                else if fst == PROC_MAGIC && follow_allowed(op) { *counts.entry("R3".into()).or_insert(0) += 1; }
                else { bad("R1-nofollow", "openat that follows a trailing symlink"); }
            }
            "newfstatat" | "statx" | "faccessat2" | "fchownat" | "utimensat" | "name_to_handle_at" => {
                let f = ev.flags.unwrap_or(0);
                if f & 0x100 != 0 || dotty { *counts.entry("R1".into()).or_insert(0) += 1; } else { bad("R1-nofollow", "stat-like call without AT_SYMLINK_NOFOLLOW"); }
            }
            "faccessat" | "fchmodat" => bad("R1-nofollow", "call cannot express no-follow"),
            _ => { bad("R1-unknown", "unclassified path syscall"); }
        }
    }
    v
}

// ------------------------------------------------------------------------------------------------ items

#[derive(Clone, Debug)]
pub enum Plan {
    Attack { bound: u32, full: bool },
    Trace,
    Fault { bound: u32, cfg: FaultCfg },
    /// two or more workers on one root, context switches at tree-relevant syscalls, bounded preemptions
    Sched { bound: u32 },
}

#[derive(Clone, Debug)]
pub struct Item {
    pub scen: Scenario,
    pub plan: Plan,
    pub warm: bool,
    /// 0 = kernel as is, 1 = fsopen -> ENOSYS (open_tree path), 2 = fsopen and open_tree -> ENOSYS (plain open of /proc)
    pub mount_api: u8,
    pub max_exec: u64,
    /// several independent single executions bundled into one item (sweeps): each is a scenario of its own
    pub bundle: Vec<Scenario>,
    /// Sched: the other concurrent callers (worker 0 is `scen`)
    pub others: Vec<Scenario>,
    /// C08: mount options of the jail's /proc, caller identity, descriptor limit
    pub proc_opts: Option<String>,
    pub unpriv: bool,
    /// C08: the caller is root of a fresh user namespace owning its mount and pid namespaces
    pub userns: bool,
    /// the operation runs in a thread with a private descriptor table; the leader holds look-alikes of this in-root directory
    pub thread_decoy: Option<String>,
    /// the operation starts with exactly this many free descriptor slots above the highest open one (RLIMIT_NOFILE set after the warm-up)
    pub fd_slack: Option<i64>,
    /// a scripted attacker action that belongs to the scenario (syscall name, path, mutation); see ExecCfg::scripted
    pub scripted: Option<(String, String, Mutation)>,
    pub nofile: Option<u64>,
    /// the caller has no descriptor 0 (a daemon that closed stdin): the library's first open returns 0
    pub no_stdin: bool,
    /// attacker alphabet restricted to {move a walked directory out, move it back, plant a never-inside look-alike inside it}
    pub root_move: bool,
    /// before the operation the caller worked on ANOTHER root (the look-alike sibling) that had the same descriptor number,
    /// with the same paths: whatever the library remembers between calls must not be keyed by descriptor numbers
    pub prior_root: bool,
}

fn item(scen: Scenario, plan: Plan, max_exec: u64) -> Item { Item { scen, plan, warm: true, mount_api: 0, max_exec, bundle: vec![], others: vec![], proc_opts: None, unpriv: false, userns: false, thread_decoy: None, fd_slack: None, scripted: None, nofile: None, no_stdin: false, root_move: false, prior_root: false } }

/// Argument spellings for the input sweep of mutating operations (C03/C05/C11).
pub fn sweep_paths() -> Vec<&'static str> {
    vec!["..", ".", "a/..", "../..", "/", "", "a/b/../../..", "evil-dir", "evil-dir/x", "evil-rel", "evil-abs", "up", "up/..", "a/b/lnk", "/../../../secret",
         "abs/../..", "evil-dir/secret", "e/f", "a", "a/b/c/d", "nonexist", "evil-dir/..", "evil-dir/a/b/c", "a/.", "a/b/c/", "../sibling", "../../a", "up/../..", "e/f/..", "file", "n4/../../escaped", "n/../..", "a/n/../../../x", "n1/n2/../../../../esc"]
}

pub fn sweep_scenarios(thorough: bool, capi: bool) -> Vec<Scenario> {
    let mut ops: Vec<Op> = Vec::new();
    let r = |n: &str| Op::new(n).root(ROOT_IN);
    for p in sweep_paths() {
        ops.push(r("remove_all").path(p));
        ops.push(r("remove_file").path(p));
        ops.push(r("remove_dir").path(p));
        ops.push(r("mkdir_all").path(p).mode(0o755));
        ops.push(r("create_file").path(p).flags(O_WRONLY).mode(0o644));
        ops.push(r("create_file").path(p).flags(O_PATH).mode(0o644));
        ops.push(r("create").path(p).itype("file").mode(0o644));
        ops.push(r("create").path(p).itype("dir").mode(0o755));
        ops.push(r("create").path(p).itype("symlink").path2("../../../../secret"));
        ops.push(r("create").path(p).itype("hardlink").path2("e/f"));
        ops.push(r("create").path("a/b/newhl").itype("hardlink").path2(p));
        ops.push(r("rename").path(p).path2("a/b/renamed").flags(0));
        ops.push(r("rename").path("e/f").path2(p).flags(0));
        if thorough {
            ops.push(r("create").path(p).itype("fifo").mode(0o644));
            ops.push(r("create_file").path(p).flags(O_WRONLY | O_TRUNC).mode(0o600));
            ops.push(r("rename").path("a/b").path2(p).flags(libc::RENAME_EXCHANGE as i64));
            ops.push(r("rename").path(p).path2("e").flags(libc::RENAME_NOREPLACE as i64));
            ops.push(r("mkdir_all").path(&format!("{}/n1/n2", p)).mode(0o700));
            ops.push(r("remove_all").path(&format!("{}/c", p)));
        }
    }
    // the same operations under the NO_SYMLINKS resolver flag (Rust API only; every other op in quick)
    if !capi {
        let extra: Vec<Op> = ops.iter().enumerate().filter(|(i, o)| thorough || i % 2 == 0 || o.name == "mkdir_all").map(|(_, o)| o.clone().rflags(RESOLVE_NO_SYMLINKS)).collect();
        ops.extend(extra);
    }
    let mut v = Vec::new();
    for b in ["E", "K"] {
        for op in &ops {
            let mut op = op.clone();
            if capi {
                // the C entry points of the same operations
                op = op.capi();
                match (op.name.as_str(), op.itype.as_deref()) {
                    ("create", Some("file")) => { op.name = "mknod".into(); op.mode = Some(libc::S_IFREG | 0o644); }
                    ("create", Some("dir")) => { op.name = "mkdir".into(); }
                    ("create", Some("fifo")) => { op.name = "mknod".into(); op.mode = Some(libc::S_IFIFO | 0o644); }
                    ("create", Some("symlink")) => { op.name = "symlink".into(); }
                    ("create", Some("hardlink")) => { op.name = "hardlink".into(); }
                    _ => {}
                }
                op.itype = None;
            }
            v.push(Scenario { name: format!("{}/{}", b, op.brief()), backend: b.into(), op: op.clone(), path: format!("{} {}", op.path.clone().unwrap_or_default(), op.path2.clone().unwrap_or_default()) });
        }
    }
    v
}

/// reopen / procfs scenarios (warm-up resolves a handle first)
pub fn handle_scenarios(thorough: bool) -> Vec<Scenario> {
    let mut v = Vec::new();
    for b in ["E", "K"] {
        let mut ops = vec![
            Op::new("reopen").handle("h:e/f").flags(O_RDONLY),
            Op::new("reopen").handle("h:a/b").flags(O_RDONLY | O_DIRECTORY),
            Op::new("reopen").handle("h:e/f").flags(O_RDWR | O_APPEND),
            Op::new("reopen").handle("nf:a/b/lnk").flags(O_RDONLY),
            // refused flag combinations: error paths that start from a VALID descriptor lent by the caller
            Op::new("reopen").handle("h:e/f").flags(O_RDONLY | O_CREAT).capi(),
            Op::new("reopen").handle("h:e/f").flags(O_WRONLY | O_EXCL).capi(),
            Op::new("reopen").handle("h:a/b").flags(O_RDWR | O_TMPFILE).capi(),
            Op::new("reopen").handle("h:e/f").flags(O_RDWR | O_CREAT | O_EXCL),
            // O_PATH: nothing but the identity of the returned object tells a correct re-open from a descriptor of something else
            Op::new("reopen").handle("h:e/f").flags(O_PATH),
            Op::new("reopen").handle("h:a/b").flags(O_PATH | O_DIRECTORY).capi(),
            Op::new("reopen").handle("h:e/f").flags(O_RDONLY).capi(),
            Op::new("proc_open").procfs("new").base("self").path("status").flags(O_RDONLY),
            Op::new("proc_open_follow").procfs("new").base("thread-self").path("fd/3").flags(O_PATH),
            Op::new("proc_readlink").procfs("new").base("self").path("fd/3"),
            Op::new("proc_open").base("self").path("exe").flags(O_RDONLY).capi(),
            Op::new("proc_readlink").base("thread-self").path("cwd").capi(),
            Op::new("proc_open").procfs("new").base("root").path("sys/kernel/ostype").flags(O_RDONLY),
            // the caller forbids following: even open_follow must not follow then
            Op::new("proc_open_follow").procfs("new").base("self").path("cwd").flags(O_PATH | O_NOFOLLOW),
            Op::new("proc_open_follow").procfs("new").base("thread-self").path("exe").flags(O_RDONLY | O_NOFOLLOW),
        ];
        if thorough {
            ops.push(Op::new("proc_open").procfs("new").base("root").path("nonexistent").flags(O_RDONLY));
            ops.push(Op::new("proc_open_follow").procfs("new").base("self").path("cwd").flags(O_RDONLY | O_DIRECTORY));
            ops.push(Op::new("proc_open").base("thread-self").path("fd/3").flags(O_PATH | O_NOFOLLOW).capi());
            ops.push(Op::new("handle_try_clone").handle("h:e/f"));
            ops.push(Op::new("root_try_clone").root(ROOT_IN));
        }
        for op in ops {
            v.push(Scenario { name: format!("{}/{}", b, op.brief()), backend: b.into(), op, path: String::new() });
        }
    }
    v
}

/// handle keys of the form "h:<path>" / "nf:<path>" are resolved during warm-up
pub fn handle_warmup(op: &Op) -> Vec<Op> {
    if op.procfs.as_deref() == Some("pj") { return vec![Op::new("proc_from_path").path("/proc").keep("pj")]; }
    if op.path.as_deref().map(|p| p.ends_with("fd/40")).unwrap_or(false) { return vec![Op::new("raw_open").path("/src/file40").flags(O_RDONLY).keep("f40"), Op::new("handle_at_fd").handle("f40").num(40)]; }
    match op.handle.as_deref() {
        Some(h) if h.starts_with("h:") => vec![Op::new("resolve").root(ROOT_IN).path(&h[2..]).keep(h)],
        Some(h) if h.starts_with("nf:") => vec![Op::new("resolve_nofollow").root(ROOT_IN).path(&h[3..]).keep(h)],
        _ => vec![],
    }
}

fn fault_cfg(th: bool) -> FaultCfg {
    FaultCfg { all_syscalls: th, per_class: if th { 7 } else { 2 }, eagain_runs: if th { vec![15, 16, 17] } else { vec![15, 16] }, exhaustion: true, custom: None }
}

pub fn items(prop: &str, tier: &str) -> Vec<Item> {
    let th = tier == "thorough";
    let mut v = Vec::new();
    let bundle = |name: &str, scens: Vec<Scenario>, size: usize, warm: bool, mount_api: u8, out: &mut Vec<Item>| {
        for (i, ch) in scens.chunks(size).enumerate() {
            let s0 = Scenario { name: format!("{}#{}", name, i), backend: ch[0].backend.clone(), op: ch[0].op.clone(), path: String::new() };
            out.push(Item { scen: s0, plan: Plan::Trace, warm, mount_api, max_exec: 1, bundle: ch.to_vec(), others: vec![], proc_opts: None, unpriv: false, userns: false, thread_decoy: None, fd_slack: None, scripted: None, nofile: None, no_stdin: false, root_move: false, prior_root: false });
        }
    };
    match prop {
        "C02" => {
            for s in lookup_scenarios(th) { v.push(item(s, Plan::Attack { bound: if th { 2 } else { 1 }, full: !th }, if th { 60_000 } else { 3_000 })); }
            // callers that are threads with a private descriptor table (unshare(CLONE_FILES)) while the thread-group leader holds
            // descriptors of the lexically expected directory on the same numbers: whatever the resolver verifies through
            // procfs must be about the calling thread's descriptors
            for (p, decoy) in [("a/b/..", "a"), ("a/b/c/..", "a/b"), ("a/b/c/../..", "a"), ("a/b/lnk/..", "a")] {
                for b in if th { vec!["E", "K"] } else { vec!["E"] } {
                    for op in [Op::new("resolve").root(ROOT_IN).path(p), Op::new("open_subpath").root(ROOT_IN).path(p).flags(O_RDONLY | O_DIRECTORY)] {
                        if !th && op.name == "open_subpath" && p != "a/b/.." { continue; }
                        let mut it = item(Scenario { name: format!("private-fdtable[{}]:{}/{}", decoy, b, op.brief()), backend: b.into(), op, path: p.into() }, Plan::Attack { bound: if th { 2 } else { 1 }, full: !th }, if th { 60_000 } else { 3_000 });
                        it.thread_decoy = Some(decoy.into());
                        v.push(it);
                    }
                }
            }
            // a walked directory moved out of the root AND an entry inside it replaced by a never-inside look-alike: two mutations
            // with the small alphabet {move out, move back, plant} on the walks that continue downwards (what the verification at
            // the end of a walk is for)
            for (p, opn, fl) in [("a/b/lnk", "resolve_nofollow", 0), ("a/b/lnk", "readlink", 0), ("a/b/lnk", "open_subpath", O_PATH | O_NOFOLLOW), ("a/b/c/d", "resolve", 0), ("a/b/c/d", "open_subpath", O_RDONLY | O_DIRECTORY), ("e/f", "open_subpath", O_RDONLY)] {
                for b in if th { vec!["E", "K"] } else { vec!["E"] } {
                    let mut op = Op::new(opn).root(ROOT_IN).path(p);
                    if opn == "open_subpath" { op = op.flags(fl); }
                    let mut it = item(Scenario { name: format!("moved+planted:{}/{}", b, op.brief()), backend: b.into(), op, path: p.into() }, Plan::Attack { bound: if th { 3 } else { 2 }, full: false }, if th { 100_000 } else { 4_000 });
                    it.root_move = true; // alphabet selector: moves and plants only
                    v.push(it);
                }
            }
            // the caller worked on another root with the same descriptor number and the same paths just before
            {
                let n0 = v.len();
                bundle("after-other-root", lookup_scenarios(th), 40, true, 0, &mut v);
                for it in v[n0..].iter_mut() { it.prior_root = true; }
            }
            // three (one walk: four) mutations per execution with the directory-swapping core, on every walk of the emulated resolver
            if th {
                for s in lookup_scenarios(true).into_iter().filter(|s| s.backend == "E" && (s.op.name == "resolve" || (s.op.name == "open_subpath" && s.path.contains("..")))) {
                    let deep = s.path == "a/b/../b/c/../../b/c/d" && s.op.name == "resolve" && s.op.rflags.is_none();
                    let mut it = item(s, Plan::Attack { bound: if deep { 4 } else { 3 }, full: false }, 400_000);
                    it.scen.name = format!("bound{}:{}", if deep { 4 } else { 3 }, it.scen.name);
                    v.push(it);
                }
            }
        }
        "C03" => {
            for s in mutating_scenarios(th) { v.push(item(s, Plan::Attack { bound: if th { 2 } else { 1 }, full: !th }, if th { 60_000 } else { 3_000 })); }
            // three mutations per execution with the directory-swapping core (both backends: the mutating operations are
            // multi-syscall protocols on the kernel backend too)
            if th {
                for s in mutating_scenarios(false).into_iter().filter(|s| s.path.contains("a/b") || s.path.contains("abs")) {
                    let mut it = item(s, Plan::Attack { bound: 3, full: false }, 400_000);
                    it.scen.name = format!("bound3:{}", it.scen.name);
                    v.push(it);
                }
            }
            // a directory the operation works in is moved out of the root and an entry inside it replaced by a never-inside look-alike
            // (two mutations, move/plant alphabet): single-step operations must stay clean; operations that walk DOWN from a
            // directory they hold (remove_all, mkdir_all) follow the planted entry - a recorded limit of the guarantee (known finding)
            for s in mutating_scenarios(false).into_iter().filter(|s| (th || s.backend == "E") && matches!(s.op.brief().as_str(), x if x.contains("remove_all(\"a\")") || x.contains("mkdir_all(\"a/b/x/y/z\")") || x.contains("create(\"a/b/new\")") || x.contains("rename(") || x.contains("remove_file(") || x.contains("create_file("))) {
                let mut it = item(s, Plan::Attack { bound: 2, full: false }, if th { 60_000 } else { 4_000 });
                it.scen.name = format!("moved+planted:{}", it.scen.name);
                it.root_move = true;
                v.push(it);
            }
            bundle("sweep-rust", sweep_scenarios(th, false), 40, true, 0, &mut v);
            // the caller worked on another root with the same descriptor number and the same paths just before
            {
                let n0 = v.len();
                bundle("after-other-root", mutating_scenarios(th), 40, true, 0, &mut v);
                if th { bundle("after-other-root-sweep", sweep_scenarios(false, false).into_iter().step_by(3).collect(), 40, true, 0, &mut v); }
                for it in v[n0..].iter_mut() { it.prior_root = true; }
            }
            if th { bundle("sweep-c", sweep_scenarios(th, true), 40, true, 0, &mut v); }
        }
        "C05" => {
            let mut all: Vec<Scenario> = Vec::new();
            all.extend(lookup_scenarios(true));
            all.extend(mutating_scenarios(true));
            all.extend(handle_scenarios(true));
            all.extend(sweep_scenarios(false, false).into_iter().step_by(if th { 1 } else { 3 }));
            if th { all.extend(sweep_scenarios(false, true)); }
            bundle("warm", all.clone(), 40, true, 0, &mut v);
            // C entry points handed AT_FDCWD (-100) where a root / handle descriptor is expected: whatever the argument check
            // does, no system call relative to the working directory may be issued
            {
                let c = |n: &str| Op::new(n).capi().root(ROOT_IN).num(libc::AT_FDCWD as i64);
                let ops = vec![c("resolve").path("a"), c("open_subpath").path("a").flags(O_RDONLY | O_NONBLOCK), c("mkdir_all").path("cwd-victim/x").mode(0o755), c("remove_all").path("a"),
                               c("create_file").path("cwd-victim-file").flags(O_WRONLY).mode(0o644), c("readlink").path("a/b/lnk").bufsize(64), c("rename").path("a").path2("b").flags(0), c("mkdir").path("cwd-victim-dir").mode(0o755)];
                let scs: Vec<Scenario> = ops.into_iter().map(|op| Scenario { name: format!("K/atfdcwd:{}", op.brief()), backend: "K".into(), op, path: String::new() }).collect();
                bundle("capi-atfdcwd", scs, 40, true, 0, &mut v);
            }
            // error and fallback paths ("success and error paths alike"): the same automaton on every syscall of executions that
            // are disturbed by one injected errno (fallbacks taken only when statx / openat2 / the mount API misbehave, error
            // formatting, retry loops) or by one attacker mutation (walks that meet a symlink or a foreign directory where the
            // undisturbed walk met a directory)
            {
                let mut f: Vec<Scenario> = Vec::new();
                f.extend(lookup_scenarios(th).into_iter().step_by(if th { 2 } else { 9 }));
                f.extend(mutating_scenarios(th).into_iter().step_by(if th { 1 } else { 5 }));
                f.extend(handle_scenarios(th).into_iter().step_by(if th { 1 } else { 5 }));
                for s in f.clone() {
                    let mut it = item(s, Plan::Fault { bound: 1, cfg: FaultCfg { all_syscalls: th, per_class: if th { 4 } else { 1 }, eagain_runs: vec![16], exhaustion: true, custom: None } }, if th { 40_000 } else { 2_500 });
                    it.scen.name = format!("faulted:{}", it.scen.name);
                    v.push(it);
                }
                for s in f.iter().filter(|s| !s.path.is_empty() && !s.op.name.starts_with("proc_") && s.op.name != "reopen").step_by(if th { 1 } else { 2 }).cloned() {
                    let mut it = item(s, Plan::Attack { bound: 1, full: th }, if th { 20_000 } else { 2_500 });
                    it.scen.name = format!("attacked:{}", it.scen.name);
                    v.push(it);
                }
                // cold: the first-use initialisation (backend probe, procfs handle construction, sysctl read) under faults
                for s in f.into_iter().filter(|s| s.path == "a/b/lnk/f" || s.op.name == "reopen" || s.op.name == "mkdir_all").step_by(if th { 1 } else { 3 }) {
                    for mapi in if th { vec![0u8, 1, 2] } else { vec![0u8] } {
                        let mut it = item(s.clone(), Plan::Fault { bound: 1, cfg: FaultCfg { all_syscalls: th, per_class: if th { 3 } else { 1 }, eagain_runs: vec![], exhaustion: false, custom: None } }, if th { 40_000 } else { 2_500 });
                        it.warm = false; it.mount_api = mapi;
                        it.scen.name = format!("faulted-cold{}:{}", mapi, it.scen.name);
                        v.push(it);
                    }
                }
            }
            // procfs lookups through a handle that SEES over-mounts (plain open of /proc) while one mount / umount is placed at every
            // procfs syscall boundary: the EXDEV and retry paths of the procfs resolvers obey the same rules
            for b in ["K", "E"] {
                let mut ops = vec![
                    Op::new("proc_open").procfs("new").base("self").path("status").flags(O_RDONLY | O_NONBLOCK),
                    Op::new("proc_open").procfs("new").base("thread-self").path("status").flags(O_PATH),
                    Op::new("proc_readlink").procfs("new").base("self").path("fd/40"),
                ];
                if th { ops.push(Op::new("proc_open").procfs("new").base("root").path("self/status").flags(O_RDONLY | O_NONBLOCK)); ops.push(Op::new("proc_open_follow").procfs("new").base("self").path("fd/40").flags(O_RDONLY)); ops.push(Op::new("proc_open").capi().base("self").path("status").flags(O_RDONLY | O_NOFOLLOW)); }
                for op in ops {
                    let sc = Scenario { name: format!("overmounted:{}/{}", b, op.brief()), backend: b.into(), op, path: "plain-open".into() };
                    let mut it = item(sc, Plan::Attack { bound: 1, full: th }, if th { 20_000 } else { 2_500 });
                    it.mount_api = 2;
                    v.push(it);
                }
            }
            // a seccomp profile that predates openat2 and the new mount API (they answer EPERM): cold, so that the probes run
            {
                let p: Vec<Scenario> = all.iter().filter(|s| s.backend == "E").step_by(if th { 2 } else { 7 }).cloned().map(|mut s| { s.backend = "P".into(); s.name = s.name.replacen("E/", "P/", 1); s }).collect();
                bundle("cold-oldprofile", p.clone(), 30, false, 0, &mut v);
                bundle("warm-oldprofile", p, 30, true, 0, &mut v);
            }
            // cold lazies and "no new mount API" on a smaller family
            let small: Vec<Scenario> = all.iter().step_by(if th { 2 } else { 9 }).cloned().collect();
            bundle("cold", small.clone(), 30, false, 0, &mut v);
            bundle("cold-nofsopen", small.clone(), 30, false, 1, &mut v);
            bundle("cold-nomountapi", small.clone(), 30, false, 2, &mut v);
            bundle("warm-nofsopen", small.clone(), 30, true, 1, &mut v);
            bundle("warm-nomountapi", small, 30, true, 2, &mut v);
        }
        "C10" => {
            let mut scens: Vec<Scenario> = Vec::new();
            scens.extend(lookup_scenarios(th).into_iter().step_by(if th { 1 } else { 5 }));
            scens.extend(mutating_scenarios(th).into_iter().step_by(if th { 1 } else { 3 }));
            scens.extend(handle_scenarios(th).into_iter().step_by(if th { 1 } else { 3 }));
            // remove_all of a non-directory takes the fast path (unlinkat, rmdir, scan open) - always included
            if !th { scens.extend(mutating_scenarios(false).into_iter().filter(|s| s.op.name == "remove_all" && s.op.path.as_deref() == Some("e/f"))); }
            // O_PATH re-opens and one-shot opens (only the identity of the result tells success from a descriptor of something else) - always included
            if !th { scens.extend(handle_scenarios(false).into_iter().filter(|s| s.op.name == "reopen" && s.op.flags.unwrap_or(0) & O_PATH != 0)); scens.extend(lookup_scenarios(false).into_iter().filter(|s| s.backend == "E" && s.op.name == "open_subpath" && s.op.flags == Some(O_PATH) && s.path == "a/b/lnk/f")); }
            { let mut seen = BTreeSet::new(); scens.retain(|s| seen.insert(s.name.clone())); }
            for s in scens.clone() { v.push(item(s, Plan::Fault { bound: 1, cfg: fault_cfg(th) }, if th { 40_000 } else { 4_000 })); }
            // a descriptor limit that bites somewhere in the middle of the operation (a real RLIMIT_NOFILE, so that descriptors
            // the operation closes become available again - unlike the EXHAUST deviation, where every later creation fails)
            for s in mutating_scenarios(th).into_iter().filter(|s| matches!(s.op.name.as_str(), "remove_all" | "mkdir_all")).chain(lookup_scenarios(false).into_iter().filter(|s| s.path == "a/b/c/d" || s.path == "a/b/lnk/f")) {
                for k in if th { (0..10).collect::<Vec<i64>>() } else { vec![0, 1, 2, 3, 4] } {
                    let mut it = item(s.clone(), Plan::Trace, 1);
                    it.fd_slack = Some(k);
                    it.scen.name = format!("fd-slack{}:{}", k, it.scen.name);
                    v.push(it);
                }
            }
            // a fault while an attacker's over-mount sits inside open_follow's documented race window (placed when the mount-id
            // comparison of the final component is about to be made): a failing probe must not turn "cannot tell" into "same mount"
            for b in ["K", "E"] {
                for (base, sub) in [("self", "exe"), ("thread-self", "exe")] {
                    let op = Op::new("proc_open_follow").procfs("new").base(base).path(sub).flags(O_RDONLY | O_NONBLOCK);
                    let sc = Scenario { name: format!("overmount-at-check:{}/{}", b, op.brief()), backend: b.into(), op, path: "plain-open".into() };
                    let names: Vec<String> = ["statx", "newfstatat", "fstatfs"].iter().map(|s| s.to_string()).collect();
                    let mut it = item(sc, Plan::Fault { bound: 1, cfg: FaultCfg { all_syscalls: false, per_class: 4, eagain_runs: vec![], exhaustion: false, custom: Some((names, vec![libc::ENOSYS, libc::EINVAL, libc::EPERM])) } }, 4_000);
                    it.mount_api = 2;
                    it.scripted = Some(("statx".into(), sub.into(), Mutation::mount(crate::mountmc::MKind::BindFile, "{PID}/exe")));
                    v.push(it);
                }
            }
            // a caller whose /proc is not a procfs (an empty tmpfs is mounted there; the library works on its private procfs): the
            // error-formatting reads of /proc/thread-self/fd/N fail, which must not disturb how the failing call itself is handled
            for op in [Op::new("resolve").root(ROOT_IN).path("a/b/../b/c/d"), Op::new("mkdir_all").root(ROOT_IN).path("a/b/x/y").mode(0o755), Op::new("open_subpath").root(ROOT_IN).path("a/b/lnk/f").flags(O_RDONLY), Op::new("remove_all").root(ROOT_IN).path("a/b/c")] {
                for b in if th { vec!["K", "E"] } else { vec!["K"] } {
                    let sc = Scenario { name: format!("tmpfs-proc:{}/{}", b, op.brief()), backend: b.into(), op: op.clone(), path: String::new() };
                    let mut it = item(sc, Plan::Fault { bound: 1, cfg: fault_cfg(th) }, if th { 40_000 } else { 4_000 });
                    it.proc_opts = Some("TMPFS".into());
                    v.push(it);
                }
            }
            // first-use initialisation of the internal procfs handle: cold lazies
            // (always including lookups through symlinks on the emulated backend: they read fs.protected_symlinks on first use)
            let mut cold: Vec<Scenario> = scens.iter().step_by(if th { 3 } else { 9 }).cloned().collect();
            cold.extend(lookup_scenarios(false).into_iter().filter(|s| s.backend == "E" && s.op.name == "resolve" && (s.path == "a/b/lnk/f" || s.path == "abs/c/d")));
            for s in cold {
                let mut it = item(s, Plan::Fault { bound: 1, cfg: fault_cfg(th) }, if th { 40_000 } else { 4_000 });
                it.warm = false;
                it.scen.name = format!("cold:{}", it.scen.name);
                v.push(it);
            }
        }
        "C11" => {
            let mut all: Vec<Scenario> = Vec::new();
            all.extend(lookup_scenarios(true));
            all.extend(mutating_scenarios(true));
            all.extend(handle_scenarios(true));
            all.extend(sweep_scenarios(false, false).into_iter().step_by(if th { 1 } else { 2 }));
            all.extend(sweep_scenarios(false, true).into_iter().step_by(if th { 1 } else { 2 }));
            bundle("table-warm", all.clone(), 40, true, 0, &mut v);
            bundle("table-cold", all.iter().step_by(7).cloned().collect(), 30, false, 0, &mut v);
            // callers without a descriptor 0
            { let n0 = v.len(); bundle("table-no-stdin", all.iter().step_by(if th { 2 } else { 5 }).cloned().collect(), 40, true, 0, &mut v); for it in v[n0..].iter_mut() { it.no_stdin = true; } }
            bundle("table-cold-nofsopen", all.iter().step_by(11).cloned().collect(), 30, false, 1, &mut v);
            bundle("table-cold-nomountapi", all.iter().step_by(11).cloned().collect(), 30, false, 2, &mut v);
            // error paths under injected faults and attacker interleavings
            let mut f: Vec<Scenario> = Vec::new();
            f.extend(lookup_scenarios(false).into_iter().step_by(if th { 2 } else { 6 }));
            f.extend(mutating_scenarios(false).into_iter().step_by(if th { 2 } else { 5 }));
            f.extend(handle_scenarios(false).into_iter().step_by(if th { 2 } else { 5 }));
            for s in f.clone() { v.push(item(s, Plan::Fault { bound: 1, cfg: FaultCfg { all_syscalls: false, per_class: if th { 3 } else { 1 }, eagain_runs: vec![16], exhaustion: true, custom: None } }, if th { 20_000 } else { 2_000 })); }
            for s in f.into_iter().filter(|s| !s.path.is_empty()).step_by(2) { v.push(item(s, Plan::Attack { bound: 1, full: false }, 2_000)); }
        }
        "C06" => {
            // racing part: one mount/umount (thorough: two) at every procfs syscall boundary of non-following lookups
            for (hk, mapi) in [("private", 0u8), ("plain-open", 2u8), ("open_tree", 1u8)] {
                for b in ["K", "E"] {
                    let mut ops = vec![
                        Op::new("proc_open").procfs("new").base("self").path("status").flags(O_RDONLY | O_NONBLOCK),
                        Op::new("proc_open").procfs("new").base("thread-self").path("status").flags(O_PATH),
                        Op::new("proc_readlink").procfs("new").base("self").path("fd/40"),
                    ];
                    if th { ops.push(Op::new("proc_open").procfs("new").base("root").path("self/status").flags(O_RDONLY | O_NONBLOCK)); ops.push(Op::new("proc_open").capi().base("self").path("status").flags(O_RDONLY | O_NOFOLLOW)); ops.push(Op::new("proc_open_follow").procfs("new").base("self").path("fd/40").flags(O_RDONLY)); }
                    for op in ops {
                        let sc = Scenario { name: format!("{}/{}/{}", hk, b, op.brief()), backend: b.into(), op, path: hk.to_string() };
                        let mut it = item(sc, Plan::Attack { bound: if th { 2 } else { 1 }, full: th }, if th { 40_000 } else { 3_000 });
                        it.mount_api = mapi;
                        v.push(it);
                    }
                }
            }
        }
        "C08" => {
            let subs: Vec<(&str, &str, &str)> = vec![
                ("root", "nonexistent", "missing"), ("self", "nonexistent", "missing"), ("thread-self", "fd/nonexistent", "missing"), ("root", "self/nonexistent/x", "missing"), ("root", "sys/nonexistent", "missing"), ("root", "999999999/status", "missing"),
                ("self", "status", "existing"), ("thread-self", "fd/3", "existing"), ("root", "self/stat", "existing"),
                ("root", "sys/kernel/ostype", "masked"), ("root", "1/status", "masked"), ("root", "uptime", "masked"), ("root", "1/nonexistent", "masked"),
                // a symlink that only exists outside subset=pid (-> self/mounts)
                ("root", "mounts", "masked"),
            ];
            // caller kinds: 0 = root with every capability, 1 = uid 1000 without capabilities, 2 = root of a fresh user namespace that
            // owns its mount and pid namespaces (rootless container: may mount a private procfs only if that is not "too revealing")
            let who_name = |w: u8| match w { 0 => "root", 1 => "uid1000", 3 => "root-after-euid1000", _ => "usernsroot" };
            // third component: kernel feature set {0: new mount API, 1: fsopen missing (open_tree clones of the host /proc), 2: neither}
            let mut cfgs: Vec<(u8, Option<&str>, u8)> = Vec::new();
            for who in [0u8, 1, 2] { for o in [None, Some("hidepid=1"), Some("hidepid=2"), Some("hidepid=ptraceable"), Some("subset=pid"), Some("hidepid=2,subset=pid")] {
                if who == 2 && !th && !matches!(o, None | Some("hidepid=2") | Some("subset=pid")) { continue; }
                cfgs.push((who, o, 0));
                if who != 1 && matches!(o, Some("subset=pid") | Some("hidepid=2")) { cfgs.push((who, o, 1)); if th { cfgs.push((who, o, 2)); } }
                // a seccomp profile that allows the new mount API but predates faccessat2 (EPERM)
                if who == 0 && matches!(o, None | Some("subset=pid")) { cfgs.push((who, o, 3)); }
            } }
            // who 3 = root that did one lookup of a missing path while its effective uid was 1000 (no private mounts possible at
            // that moment) and then switched back: whatever the library remembers from that lookup must not outlive it
            cfgs.push((3, Some("subset=pid"), 0));
            cfgs.push((3, None, 0));
            for (who, opts, mapi) in &cfgs {
                let unpriv = &(*who == 1);
                let mut scs: Vec<Scenario> = Vec::new();
                for hk in ["new", "capi", "fromfd"] {
                    // a foreign pid directory as the FINAL component: invisible (hence missing) for an unprivileged caller under hidepid=2
                    let pid1_class = if *who == 1 && opts.map(|o| o.contains("hidepid=2")).unwrap_or(false) { "missing" } else { "existing" };
                    let mut subs2 = subs.clone();
                    subs2.push(("root", "1", pid1_class));
                    for (base, sub, class) in &subs2 {
                        for opn in ["proc_open", "proc_readlink", "proc_open_follow"] {
                            if *sub == "1" && opn == "proc_readlink" && *class == "existing" { continue; }
                            if hk == "capi" && opn == "proc_open_follow" { continue; }
                            if !th && opn == "proc_open_follow" && *class != "missing" && *sub != "mounts" { continue; }
                            let mut op = Op::new(opn).base(base).path(sub).flags(O_RDONLY | O_NONBLOCK);
                            match hk { "new" => op = op.procfs("new"), "capi" => op = op.capi(), _ => op = op.procfs("pj") }
                            scs.push(Scenario { name: format!("{}{}{}/{}/{}", who_name(*who), opts.map(|o| format!("+{}", o)).unwrap_or_default(), ["", "+nofsopen", "+nomountapi", "+nofaccessat2"][*mapi as usize], hk, op.brief()), backend: "K".into(), op, path: class.to_string() });
                        }
                    }
                }
                let s0 = scs[0].clone();
                v.push(Item { scen: s0, plan: Plan::Trace, warm: true, mount_api: *mapi, max_exec: 1, bundle: scs, others: vec![], proc_opts: opts.map(|s| s.to_string()), unpriv: *unpriv, userns: *who == 2, thread_decoy: None, fd_slack: None, scripted: None, nofile: Some(256), no_stdin: false, root_move: false, prior_root: false });
            }
            // environment answers of the handle-construction protocol: every single (thorough: every pair of) deviating answer(s)
            let names: Vec<String> = ["fsopen", "fsconfig", "fsmount", "open_tree", "openat", "faccessat2", "newfstatat"].iter().map(|s| s.to_string()).collect();
            for (who, opts) in [(0u8, None), (1, Some("hidepid=2")), (0, Some("subset=pid")), (1, None), (2, Some("subset=pid")), (2, None)] {
                let unpriv = who == 1;
                for (base, sub, class) in [("root", "nonexistent", "missing"), ("root", "sys/kernel/ostype", "masked"), ("self", "nonexistent", "missing")] {
                    for hk in ["new", "fromfd"] {
                        let mut op = Op::new("proc_open").base(base).path(sub).flags(O_RDONLY | O_NONBLOCK);
                        op = if hk == "new" { op.procfs("new") } else { op.procfs("pj") };
                        let sc = Scenario { name: format!("{}{}/{}/{}", who_name(who), opts.map(|o| format!("+{}", o)).unwrap_or_default(), hk, op.brief()), backend: "K".into(), op, path: class.to_string() };
                        let mut it = item(sc, Plan::Fault { bound: if th { 2 } else { 1 }, cfg: FaultCfg { all_syscalls: false, per_class: 4, eagain_runs: vec![], exhaustion: true, custom: Some((names.clone(), vec![libc::EPERM, libc::ENOSYS, libc::ENOENT])) } }, if th { 30_000 } else { 3_000 });
                        it.proc_opts = opts.map(|s| s.to_string()); it.unpriv = unpriv; it.userns = who == 2; it.nofile = Some(256);
                        v.push(it);
                    }
                }
            }
        }
        "C16" => {
            // errno attribution under faults: C API operations that succeed undisturbed, one system call made to fail
            {
                let mut f: Vec<Scenario> = Vec::new();
                for b in ["K", "E"] {
                    let c = |n: &str| Op::new(n).capi().root(ROOT_IN);
                    let mut ops = vec![c("resolve").path("a/b/lnk/f"), c("mkdir_all").path("a/b/x/y").mode(0o755), c("remove_all").path("a"), c("readlink").path("a/b/lnk").bufsize(64),
                        c("open_subpath").path("abs/../b/c/../../../e/f").flags(O_RDONLY), c("create_file").path("a/b/newf").flags(O_WRONLY | O_EXCL).mode(0o644), c("rename").path("e/f").path2("a/b/f2").flags(0),
                        Op::new("reopen").handle("h:e/f").flags(O_RDONLY).capi(), Op::new("proc_readlink").base("thread-self").path("cwd").capi(), Op::new("proc_open").base("self").path("status").flags(O_RDONLY).capi()];
                    if th { ops.extend(vec![c("remove_dir").path("a/b/c/d"), c("remove_file").path("e/f"), c("hardlink").path("a/b/hl").path2("e/f"), c("symlink").path("a/b/sl").path2("../x"), c("mkdir").path("a/b/nd").mode(0o755), c("mknod").path("a/b/nf").mode(0o010644),
                        c("resolve_nofollow").path("a/b/lnk"), Op::new("proc_open").base("self").path("exe").flags(O_RDONLY | O_NOFOLLOW | O_PATH).capi(), Op::new("proc_open").base("thread-self").path("fd/3").flags(O_PATH).capi()]); }
                    for op in ops { f.push(Scenario { name: format!("errno:{}/{}", b, op.brief()), backend: b.into(), op, path: String::new() }); }
                }
                // the same for a caller whose /proc is not a procfs (the error-formatting reads fail there and must not disturb the errno)
                for s in f.iter().filter(|s| s.backend == "K" && (matches!(s.op.name.as_str(), "resolve" | "open_subpath") || (th && matches!(s.op.name.as_str(), "mkdir_all" | "readlink")))).cloned() {
                    let mut it = item(s, Plan::Fault { bound: 1, cfg: FaultCfg { all_syscalls: th, per_class: if th { 7 } else { 2 }, eagain_runs: vec![], exhaustion: false, custom: None } }, if th { 40_000 } else { 2_500 });
                    it.scen.name = format!("tmpfs-proc:{}", it.scen.name);
                    it.proc_opts = Some("TMPFS".into());
                    v.push(it);
                }
                // (quick: the emulated backend's walks have hundreds of fault points each - two of them suffice there)
                for s in f.into_iter().step_by(if th { 1 } else { 2 }).filter(|s| th || s.backend == "K" || matches!(s.op.name.as_str(), "resolve" | "reopen")) { v.push(item(s, Plan::Fault { bound: 1, cfg: FaultCfg { all_syscalls: th, per_class: if th { 7 } else { 2 }, eagain_runs: vec![], exhaustion: false, custom: None } }, if th { 40_000 } else { 2_500 })); }
            }
            // C-API lookups: safety violations from EAGAIN storms (kernel backend) and from attacker schedules (emulated backend)
            for p in ["a/b/c/d", "a/b/../b/c/../../b/c/d"] {
                for name in ["resolve", "open_subpath"] {
                    let op = Op::new(name).capi().root(ROOT_IN).path(p).flags(O_RDONLY | O_NONBLOCK);
                    v.push(item(Scenario { name: format!("K/{}", op.brief()), backend: "K".into(), op: op.clone(), path: p.into() }, Plan::Fault { bound: 1, cfg: FaultCfg { all_syscalls: false, per_class: 2, eagain_runs: vec![15, 16], exhaustion: false, custom: None } }, 2_000));
                    if name == "resolve" || th { v.push(item(Scenario { name: format!("E/{}", op.brief()), backend: "E".into(), op, path: p.into() }, Plan::Attack { bound: 1, full: th }, 3_000)); }
                }
            }
        }
        "C12" | "C13" => {
            let mk = |p: &str| Op::new(if prop == "C12" { "mkdir_all" } else { "remove_all" }).root(ROOT_IN).path(p).mode(0o755);
            let pairs: Vec<Vec<&str>> = if prop == "C12" {
                // LONG = a component of 256 bytes: that caller is doomed (ENAMETOOLONG) after it has created its first directories;
                // the other caller shares that prefix and must not be disturbed by whatever the doomed one does on its way out
                let mut v = vec![vec!["a/b/x/y/z", "a/b/x/y/z"], vec!["a/b/x/y", "a/b/x/y/z/w"], vec!["a/n/p", "a/n/q"], vec!["abs/x/y", "a/b/x/y"], vec!["e/m/w", "e/m/LONG/z"], vec!["a/b/x/LONG", "a/b/x/y"]];
                if th { v.push(vec!["e/m/n", "e/m/n", "e/m/n/o"]); v.push(vec!["up/a/b/q/r", "a/b/q/r/s"]); v.push(vec!["a/b/c/d/k", "a/b/lnk/k"]); }
                v
            } else {
                let mut v = vec![vec!["a", "a"], vec!["a", "a/b/c"], vec!["a/b/c", "a"], vec!["a/b", "a/b"], vec!["e", "e"], vec!["e/f", "e/f"], vec!["a/b/lnk", "a/b/lnk"]];
                if th { v.push(vec!["a", "a", "a/b"]); v.push(vec!["a/b/lnk", "a/b"]); v.push(vec!["abs/c", "a/b/c"]); }
                v
            };
            if prop == "C13" {
                for s in mutating_scenarios(th).into_iter().filter(|s| s.op.name == "remove_all") { v.push(item(s, Plan::Attack { bound: if th { 2 } else { 1 }, full: !th }, if th { 60_000 } else { 3_000 })); }
            }
            // callers with different uids racing for the first missing component inside a sticky world-writable directory
            if prop == "C12" {
                for b in ["E", "K"] {
                    for (p0, p1) in [("tmp/t/a/b", "tmp/t/a/b"), ("tmp/t/a", "tmp/t/c/d")] {
                        let m = |p: &str| Op::new("mkdir_all").root(ROOT_IN).path(p).mode(0o777);
                        let s0 = Scenario { name: format!("{}@1001/{}", b, m(p0).brief()), backend: format!("{}@1001", b), op: m(p0), path: p0.into() };
                        let s1 = Scenario { name: format!("{}@1002/{}", b, m(p1).brief()), backend: format!("{}@1002", b), op: m(p1), path: p1.into() };
                        let mut it = item(s0.clone(), Plan::Sched { bound: if th { 2 } else { 1 } }, if th { 80_000 } else { 4_000 });
                        it.scen.name = format!("{} || {}", s0.name, s1.name);
                        it.others = vec![s1];
                        v.push(it);
                    }
                }
            }
            for b in ["E", "K"] {
                for pr in &pairs {
                    let long = "n".repeat(256);
                    let scs: Vec<Scenario> = pr.iter().map(|p| { let p = p.replace("LONG", &long); Scenario { name: format!("{}/{}", b, mk(&p).brief()), backend: b.into(), op: mk(&p), path: p } }).collect();
                    // groups with a doomed caller need two preemptions to interleave "create - other caller enters - clean up"
                    let doomed = scs.iter().any(|s| s.path.split('/').any(|c| c.len() > 255));
                    let bound = if th { if scs.len() == 2 { if doomed { 3 } else { 2 } } else { 1 } } else if doomed { 2 } else { 1 };
                    let mut it = item(scs[0].clone(), Plan::Sched { bound }, if th { 80_000 } else { 4_000 });
                    it.scen.name = scs.iter().map(|s| s.name.clone()).collect::<Vec<_>>().join(" || ");
                    it.others = scs[1..].to_vec();
                    v.push(it.clone());
                    // callers that ask for different modes (the second one stricter) on the first two groups
                    if prop == "C12" && scs.len() == 2 && (scs[0].path == scs[1].path || scs[1].path.starts_with(&format!("{}/", scs[0].path))) {
                        let mut it2 = it;
                        let mut o = it2.others[0].clone();
                        o.op.mode = Some(0o700);
                        o.name = format!("{}/{}", b, o.op.brief());
                        it2.scen.name = format!("{} || {}", scs[0].name, o.name);
                        it2.others = vec![o];
                        v.push(it2.clone());
                        // and with the stricter caller scheduled first by default
                        let mut it3 = it2;
                        let first = it3.others[0].clone();
                        let second = it3.scen.clone();
                        it3.scen = Scenario { name: format!("{} || {}", first.name, scs[0].name), ..first };
                        it3.others = vec![Scenario { name: scs[0].name.clone(), ..second }];
                        v.push(it3);
                    }
                }
            }
        }
        _ => {}
    }
    // longest explorations first (emulated backend, '..'-heavy paths), so that the pool does not end on a few stragglers
    if matches!(prop, "C02" | "C03" | "C13") {
        v.sort_by_key(|it| (!it.bundle.is_empty(), it.scen.backend != "E", std::cmp::Reverse(it.scen.path.matches("..").count() * 10 + it.scen.path.len())));
    }
    v
}

pub fn n_items(prop: &str, tier: &str) -> usize { items(prop, tier).len() }

fn spec_for(it: &Item, scen: &Scenario) -> OneShot {
    // "K@1001": the caller runs as that uid/gid (no capabilities), umask 0
    let (bk, uid) = match scen.backend.split_once('@') { Some((b, u)) => (b, u.parse::<u32>().unwrap_or(0)), None => (scen.backend.as_str(), 0) };
    let mut os = oneshot(bk, scen.op.clone(), it.warm);
    if uid != 0 { os.setup.uid = uid; os.setup.gid = uid; os.setup.keep_dumpable = true; os.setup.umask = Some(0); }
    os.warmup.extend(handle_warmup(&scen.op));
    if it.prior_root {
        // drop the root (its descriptor number becomes free), open the look-alike sibling as a Root (it gets that number), use the
        // same paths there without changing anything, drop it again: the operation then re-opens the real root on that number
        let sib = format!("{}/sibling", PARENT_IN);
        os.warmup.push(Op::new("drop_root").root(ROOT_IN));
        os.warmup.push(Op::new("open_root_key").root(&sib));
        for p in [scen.op.path.clone(), scen.op.path2.clone()].into_iter().flatten() {
            let parent = match p.trim_end_matches('/').rfind('/') { Some(i) => p[..i].to_string(), None => ".".to_string() };
            os.warmup.push(Op::new("resolve").root(&sib).path(&p).rflags(scen.op.rflags.unwrap_or(0)));
            os.warmup.push(Op::new("resolve_nofollow").root(&sib).path(&p).rflags(scen.op.rflags.unwrap_or(0)));
            os.warmup.push(Op::new("open_subpath").root(&sib).path(&p).flags(O_PATH).rflags(scen.op.rflags.unwrap_or(0)));
            os.warmup.push(Op::new("readlink").root(&sib).path(&p).rflags(scen.op.rflags.unwrap_or(0)));
            os.warmup.push(Op::new("remove_file").root(&sib).path(&format!("{}/no-such-entry-prior", parent)).rflags(scen.op.rflags.unwrap_or(0)));
            os.warmup.push(Op::new("remove_dir").root(&sib).path(&format!("{}/no-such-entry-prior", parent)).rflags(scen.op.rflags.unwrap_or(0)));
            os.warmup.push(Op::new("rename").root(&sib).path(&format!("{}/no-such-entry-prior", parent)).path2(&format!("{}/no-such-entry-prior2", parent)).flags(0).rflags(scen.op.rflags.unwrap_or(0)));
        }
        os.warmup.push(Op::new("drop_root").root(&sib));
        os.warmup.push(Op::new("open_root_key").root(ROOT_IN));
    }
    if scen.name.starts_with("root-after-euid1000") {
        os.warmup.push(Op::new("seteuid").num(1000));
        os.warmup.push(Op::new("proc_open").procfs("new").base("root").path("nonexistent-while-unprivileged").flags(O_RDONLY));
        os.warmup.push(Op::new("proc_open").capi().base("root").path("nonexistent-while-unprivileged").flags(O_RDONLY));
        os.warmup.push(Op::new("seteuid").num(0));
    }
    if it.no_stdin { os.warmup.push(Op::new("close_stdin")); }
    if let Some(k) = it.fd_slack { os.warmup.push(Op::new("limit_fds").num(k)); }
    if it.userns { os.setup.userns = true; }
    if let Some(d) = &it.thread_decoy { os.setup.thread_decoy = Some(format!("{}|{}/{}", ROOT_IN, ROOT_IN, d)); }
    if it.unpriv { os.setup.uid = 1000; os.setup.gid = 1000; os.setup.drop_caps = true; os.setup.keep_dumpable = true; }
    os.setup.rlimit_nofile = it.nofile;
    // 3: the new mount API works, but faccessat2 is refused with EPERM (a seccomp profile older than Linux 5.8)
    if it.mount_api == 3 { os.setup.deny.push("faccessat2=EPERM".to_string()); }
    else {
        if it.mount_api >= 1 { os.setup.deny.push("fsopen".to_string()); }
        if it.mount_api >= 2 { os.setup.deny.push("open_tree".to_string()); }
    }
    os
}

/// post-condition of a successful operation (C10: "does not report success for work it did not do")
fn postcondition(scen: &Scenario, o: &Obs) -> Option<String> {
    let root_out = out(ROOT_IN);
    let rootfd = open_path(&root_out).ok()?;
    use std::os::unix::io::AsRawFd;
    let look = |p: &str, nofollow: bool| openat2(rootfd.as_raw_fd(), p, (O_PATH | if nofollow { O_NOFOLLOW } else { 0 }) as u64, RESOLVE_IN_ROOT | RESOLVE_NO_MAGICLINKS).ok().and_then(|fd| fstat(fd.as_raw_fd()));
    let op = &scen.op;
    let path = op.path.clone().unwrap_or_default();
    match op.name.as_str() {
        "resolve" | "open_subpath" => { let st = look(&path, op.flags.unwrap_or(0) & O_NOFOLLOW != 0)?; let fd = o.fd.as_ref()?; if (st.dev, st.ino) != (fd.dev, fd.ino) { return Some(format!("returned object is not what {} resolves to", path)); } None }
        "resolve_nofollow" => { let st = look(&path, true)?; let fd = o.fd.as_ref()?; if (st.dev, st.ino) != (fd.dev, fd.ino) { return Some("returned object is not the nofollow resolution".into()); } None }
        "create" | "create_file" | "mkdir" | "mknod" | "symlink" | "hardlink" => if look(&path, true).is_none() { Some(format!("reported success but {} does not exist", path)) } else { None },
        "mkdir_all" => match look(&path, false) { Some(st) if st.is_dir() => { let fd = o.fd.as_ref()?; if (st.dev, st.ino) != (fd.dev, fd.ino) { Some("mkdir_all handle is not the directory at the path".into()) } else { None } } _ => Some(format!("reported success but {} is not a directory", path)) },
        "remove_file" | "remove_dir" | "remove_all" => if look(&path, true).is_some() { Some(format!("reported success but {} still exists", path)) } else { None },
        // handle keys "h:<path>" / "nf:<path>": the re-opened object is the handle's object
        "reopen" => {
            let key = op.handle.clone().unwrap_or_default();
            let (nf, hp) = if let Some(p) = key.strip_prefix("h:") { (false, p.to_string()) } else if let Some(p) = key.strip_prefix("nf:") { (true, p.to_string()) } else { return None };
            let st = look(&hp, nf)?; let fd = o.fd.as_ref()?;
            if (st.dev, st.ino) != (fd.dev, fd.ino) { return Some(format!("reopen returned a descriptor of another object than the handle's ({:?}, type bits {:o})", fd.procpath, fd.mode & libc::S_IFMT)); }
            None
        }
        "rename" => { let p2 = op.path2.clone().unwrap_or_default(); if op.flags.unwrap_or(0) == 0 && (look(&path, true).is_some() || look(&p2, true).is_none()) { Some("rename reported success but the entries did not move".into()) } else { None } }
        _ => None,
    }
}

/// C12/C13 under concurrency: all callers succeed, agree, and leave exactly the expected tree.
fn judge_concurrent(prop: &str, it: &Item, scen: &Scenario, w: &World, eo: &ExecOut) -> MResult<Vec<(String, String)>> {
    use std::os::unix::io::AsRawFd;
    let mut v = Vec::new();
    if eo.timeout || eo.horizon_hit { v.push(("hang".into(), "concurrent callers did not terminate within the horizon".into())); return Ok(v); }
    let mut scs = vec![scen.clone()];
    scs.extend(it.others.iter().cloned());
    let after = snapshot(&out("/w"))?;
    let rootfd = open_path(&out(ROOT_IN))?;
    let look = |p: &str| openat2(rootfd.as_raw_fd(), p, (O_PATH | O_NOFOLLOW) as u64, RESOLVE_IN_ROOT | RESOLVE_NO_MAGICLINKS).ok().and_then(|fd| fstat(fd.as_raw_fd()));
    let mut final_ids: Vec<Option<(u64, u64)>> = Vec::new();
    // C13 promises success only to callers of one and the same path; C12 also to overlapping paths
    let strict = prop == "C12" || scs.iter().all(|s| s.path == scs[0].path);
    for (i, s) in scs.iter().enumerate() {
        match eo.final_obs(i) {
            None => { v.push(("crash".into(), format!("caller {} ({}) died", i, s.name))); final_ids.push(None); }
            Some(o) => {
                if let Some(p) = &o.panic { v.push(("panic".into(), format!("caller {} panicked: {}", i, p))); }
                else if !o.ok && !strict { /* callers of different paths may lose the race for their parent: the statement promises nothing */ }
                else if !o.ok && s.path.split('/').any(|c| c.len() > 255) { /* this caller cannot succeed on its own (ENAMETOOLONG): nothing is promised to it */ }
                else if !o.ok { v.push((format!("caller-failed:{}", errname(o.errno.unwrap_or(-1))), format!("caller {} ({}) failed with {} ({}) although concurrent calls must all succeed", i, s.name, errname(o.errno.unwrap_or(-1)), o.msg.clone().unwrap_or_default()))); }
                final_ids.push(o.fd.as_ref().map(|f| (f.dev, f.ino)));
            }
        }
    }
    if !v.is_empty() { return Ok(v); }
    let d = diff(&w.before, &after);
    if prop == "C12" {
        for (i, s) in scs.iter().enumerate() {
            if !eo.final_obs(i).map(|o| o.ok).unwrap_or(false) { continue; }
            match look(&s.path) {
                Some(st) if st.is_dir() => { if final_ids[i] != Some((st.dev, st.ino)) { v.push(("handle-mismatch".into(), format!("caller {}: returned handle is not the directory {} resolves to", i, s.path))); } }
                _ => v.push(("missing".into(), format!("caller {}: {} is not a directory after a successful mkdir_all", i, s.path))),
            }
            for (j, t) in scs.iter().enumerate() { if j > i && t.path == s.path && final_ids[i] != final_ids[j] { v.push(("different-dirs".into(), format!("callers {} and {} of the same path got different directories", i, j))); } }
        }
        if !d.removed.is_empty() || !d.changed.iter().all(|p| after.get(p).map(|n| n.typ == "dir").unwrap_or(false)) { v.push(("collateral".into(), format!("mkdir_all removed or modified entries: {}", d.text()))); }
        // every new entry is a directory on the chain of one of the requested paths
        let finals: Vec<String> = final_ids.iter().filter_map(|id| id.and_then(|id| after.iter().find(|(_, n)| (n.dev, n.ino) == id).map(|(p, _)| p.clone()))).collect();
        for p in &d.added {
            let n = &after[p];
            let on_req = scs.iter().any(|s| { let want = format!("outer/parent/root/{}", s.path.replacen("abs/", "a/b/", 1)); want == *p || want.starts_with(&format!("{}/", p)) });
            let on_chain = on_req || finals.iter().any(|f| f == p || f.starts_with(&format!("{}/", p)));
            if n.typ != "dir" || !on_chain { v.push(("extra-entry".into(), format!("mkdir_all created {} ({}) which is not on the chain of a requested path", p, n.typ))); }
            else if !scs.iter().any(|s| s.op.mode.unwrap_or(0o755) == n.perm) { v.push(("mode".into(), format!("created directory {} has mode {:o}, which no caller asked for", p, n.perm))); }
        }
    } else {
        for (i, s) in scs.iter().enumerate() { if eo.final_obs(i).map(|o| o.ok).unwrap_or(false) && look(&s.path).is_some() { v.push(("still-there".into(), format!("caller {}: {} still exists after a successful remove_all", i, s.path))); } }
        if !d.added.is_empty() { v.push(("collateral".into(), format!("remove_all added entries: {}", d.text()))); }
        // removed entries lie below one of the named paths (as they were before the calls)
        let rootrel = "outer/parent/root/";
        let named: Vec<String> = scs.iter().filter_map(|s| {
            // where the path pointed before anything ran: resolve lexically through the initial snapshot is not needed for these drivers:
            // every driver path except abs/.. is link-free; map abs -> a/b
            let p = s.path.replace("abs/", "a/b/");
            Some(format!("{}{}", rootrel, p))
        }).collect();
        for p in &d.removed { if !named.iter().any(|n| p == n || p.starts_with(&format!("{}/", n))) { v.push(("collateral".into(), format!("remove_all removed {} which is not below a named path", p))); } }
        for p in &d.changed { if !named.iter().any(|n| n.starts_with(&format!("{}/", p)) ) && after.get(p).map(|n| n.typ != "dir").unwrap_or(true) { v.push(("collateral".into(), format!("remove_all modified {}", p))); } }
    }
    Ok(v)
}

/// racing mounts (C06): one mount / umount of each kind on the entries a "self/status"-style lookup walks over
pub fn mount_mutations(full: bool) -> Vec<Mutation> {
    use crate::mountmc::MKind::*;
    let mut v = vec![
        Mutation::mount(BindFile, "{PID}/status"), Mutation::mount(BindProcFile, "{PID}/status"), Mutation::mount(Tmpfs, "{PID}"), Mutation::mount(BindDir, "{PID}"),
        Mutation::mount(BindFile, "self"), Mutation::mount(BindFile, "thread-self"), Mutation::mount(BindSymlink, "self"), Mutation::mount(BindSymlink, "thread-self"), Mutation::mount(BindDir, "{PID}/task"), Mutation::mount(BindFile, "{PID}/task/{PID}/status"),
        // (this kernel refuses mounts on top of /proc/<pid>/fd/<n> itself - ENOENT - so only the directory is raced)
        Mutation::mount(BindDir, "{PID}/fd"), Mutation::mount(Tmpfs, "{PID}/fd"),
    ];
    if full { v.extend(vec![Mutation::mount(BindProcDir, "{PID}"), Mutation::mount(BindMagicLink, "{PID}/status"), Mutation::mount(BindMagicLink, "{PID}/exe"), Mutation::mount(BindProcFile, "{PID}/task/{PID}/status"), Mutation::mount(Tmpfs, "{PID}/task")]); }
    let rels: Vec<String> = v.iter().filter_map(|m| if let MutKind::Mount(_, r) = &m.kind { Some(r.clone()) } else { None }).collect::<std::collections::BTreeSet<_>>().into_iter().collect();
    for r in rels { v.push(Mutation::umount(&r)); }
    v
}

/// Judge one execution for `prop`. Returns (key, description) pairs.
fn judge(prop: &str, it: &Item, scen: &Scenario, w: &World, eo: &ExecOut, counts: &mut BTreeMap<String, u64>) -> MResult<Vec<(String, String)>> {
    let mut v: Vec<(String, String)> = Vec::new();
    // C13 "never follows links" while a third party swaps directories for symlinks is judged like C03 (containment + frame)
    let prop = if prop == "C13" && matches!(it.plan, Plan::Attack { .. }) { "C03" } else { prop };
    let obs = eo.final_obs(0);
    let died = obs.is_none();
    let panic = obs.and_then(|o| o.panic.clone());
    // panic class: source file + head of the message (line numbers would shift with every edit of the file)
    let site = |p: &str| { let loc = p.rsplit('@').next().unwrap_or("").trim(); let file = loc.rsplit_once(':').map(|x| x.0).unwrap_or(loc).trim_start_matches("/repo/"); format!("{}:{}", file, p.chars().take(44).collect::<String>()) };
    match prop {
        "C05" => { v.extend(discipline_monitor(&scen.op, eo, counts)); }
        "C11" => {
            if let Some(o) = obs {
                let before: BTreeMap<i32, &FdEnt> = o.fds_before.iter().map(|e| (e.fd, e)).collect();
                let after: BTreeMap<i32, &FdEnt> = o.fds_after.iter().map(|e| (e.fd, e)).collect();
                let ret = o.fd.as_ref().map(|f| f.fd);
                let mut extra = 0;
                for (fd, e) in &after {
                    match before.get(fd) {
                        Some(b) => if (b.dev, b.ino) != (e.dev, e.ino) { v.push(("fd-replaced".into(), format!("descriptor {} refers to a different object after the call", fd))); },
                        None => {
                            if Some(*fd) == ret { if !e.cloexec { v.push(("returned-no-cloexec".into(), format!("returned descriptor {} is not close-on-exec", fd))); } continue; }
                            // cold runs: the process-lifetime procfs handle (root of a procfs: inode 1) may appear once
                            if !it.warm && e.ino == 1 && extra == 0 { extra += 1; continue; }
                            let cr = eo.events.iter().rev().find(|ev| ev.rval == *fd as i64 && ev.retid.is_some());
                            v.push((format!("leak:{}", cr.map(|e| e.name.clone()).unwrap_or_default()), format!("descriptor {} leaked (created by {})", fd, cr.map(|e| e.brief()).unwrap_or_default())));
                        }
                    }
                }
                for fd in before.keys() { if !after.contains_key(fd) { v.push(("closed-lent".into(), format!("descriptor {} that was open before the call is closed afterwards", fd))); } }
                counts.entry("tables_compared".into()).and_modify(|n| *n += 1).or_insert(1);
            }
        }
        _ => {}
    }
    if matches!(prop, "C12" | "C13") {
        v.extend(judge_concurrent(prop, it, scen, w, eo)?);
        return Ok(v);
    }
    if prop == "C06" {
        let worker_pid = eo.pids.first().copied().unwrap_or(0);
        if eo.timeout || eo.horizon_hit { v.push(("hang".into(), "lookup did not terminate".into())); return Ok(v); }
        match obs {
            None => v.push(("crash".into(), format!("worker died: {}", outcome_text(w, eo, 0)))),
            Some(o) => {
                if let Some(p) = &o.panic { v.push(("panic".into(), format!("panic: {}", p))); return Ok(v); }
                let srcs: Vec<(u64, u64)> = ["/src/secret-src", "/src/srcdir", "/src/srcdir/status", "/src/srcdir/fd", "/src/srcdir/fd/40", "/src/srcdir/task"].iter().filter_map(|p| lstat(&out(p)).map(|s| (s.dev, s.ino))).collect();
                if o.ok {
                    if let Some(fd) = &o.fd {
                        let follows = scen.op.name == "proc_open_follow";
                        if srcs.contains(&(fd.dev, fd.ino)) { v.push(("returned-overmount-source".into(), format!("returned the racing over-mount's object ({:?}) instead of the procfs entry", fd.procpath))); }
                        else if !follows && fd.fstype != PROC_MAGIC { v.push(("not-procfs".into(), format!("returned an object that is not on procfs ({:?}, fstype 0x{:x})", fd.procpath, fd.fstype))); }
                        else if !follows && scen.op.path.as_deref() == Some("status") && fd.mode & libc::S_IFMT != libc::S_IFREG { v.push(("wrong-type".into(), format!("status is not a regular file: mode {:o}", fd.mode))); }
                        // the object of the REQUESTED path: <pid>/status resp. <pid>/task/<tid>/status of the calling process, nobody else's
                        else if !follows && scen.op.name == "proc_open" {
                            let pid = eo.events.first().map(|_| ()).and_then(|_| o.fds_after.first().map(|_| ())).map(|_| 0).unwrap_or(0);
                            let _ = pid;
                            if let Some(pp) = &fd.procpath {
                                let sub = scen.op.path.clone().unwrap_or_default();
                                let tail = sub.rsplit('/').next().unwrap_or("").to_string();
                                let comps: Vec<&str> = pp.trim_end_matches(" (deleted)").split('/').filter(|c| !c.is_empty() && *c != "proc").collect();
                                // first component must be the worker's own pid (reported by the supervisor)
                                let want_pid = worker_pid.to_string();
                                let ok = comps.last().map(|c| *c == tail).unwrap_or(false) && comps.first().map(|c| *c == want_pid).unwrap_or(false);
                                if !ok { v.push(("wrong-procfs-object".into(), format!("returned {:?}, not the calling process's own {}", pp, sub))); }
                            }
                        }
                    }
                    if let Some(t) = &o.text { if scen.op.name == "proc_readlink" && !t.ends_with("/src/file40") { v.push(("wrong-link-body".into(), format!("readlink of fd/40 gave {:?}", t))); } }
                } else if scen.path == "private" {
                    // a private procfs instance cannot be affected by mounts on the host's /proc, racing or not
                    v.push((format!("private-handle-affected:{}", errname(o.errno.unwrap_or(-1))), format!("a lookup through a private procfs instance failed with {} ({})", errname(o.errno.unwrap_or(-1)), o.msg.clone().unwrap_or_default().chars().take(200).collect::<String>())));
                }
            }
        }
        return Ok(v);
    }
    if prop == "C08" {
        if eo.timeout || eo.horizon_hit { v.push(("unbounded".into(), format!("lookup did not terminate within the horizon ({} syscalls)", eo.events.len()))); return Ok(v); }
        // procfs handle creations and peak descriptor count, from the trace
        let creations = eo.events.iter().filter(|e| e.rval >= 0 && (e.name == "fsmount" || e.name == "open_tree" || (e.name == "openat" && e.fd == Some(libc::AT_FDCWD) && e.path.as_deref() == Some("/proc")))).count();
        let attempts = eo.events.iter().filter(|e| e.name == "fsopen" || e.name == "open_tree" || (e.name == "openat" && e.fd == Some(libc::AT_FDCWD) && e.path.as_deref() == Some("/proc"))).count();
        let (mut cur, mut peak) = (0i64, 0i64);
        for e in &eo.events { if e.rval >= 0 && e.retid.is_some() { cur += 1; peak = peak.max(cur); } if e.name == "close" && e.rval == 0 { cur -= 1; } }
        counts.entry("max_handle_creations".into()).and_modify(|n| *n = (*n).max(creations as u64)).or_insert(creations as u64);
        counts.entry("max_peak_descriptors".into()).and_modify(|n| *n = (*n).max(peak as u64)).or_insert(peak as u64);
        // constant bound: the handle in use plus one temporary unmasked handle per internal lookup (open_follow does two lookups)
        if creations > 4 || attempts > 16 { v.push(("handle-creations".into(), format!("one lookup created {} procfs handles ({} attempts); a constant number (<= 4: the handle in use, and one unmasked retry for each of open_follow's two internal lookups) is allowed", creations, attempts))); }
        if peak > 24 { v.push(("descriptors".into(), format!("one lookup held {} descriptors open at once", peak))); }
        match obs {
            None => v.push(("crash".into(), format!("worker died: {}", outcome_text(w, eo, 0)))),
            Some(o) => {
                if scen.path == "missing" && eo.faults.is_empty() && o.panic.is_none() && (o.ok || o.errno != Some(libc::ENOENT)) {
                    v.push((format!("missing-not-enoent:{}", if o.ok { "ok".into() } else { errname(o.errno.unwrap_or(-1)) }), format!("lookup of a path that does not exist reported {} ({}) instead of ENOENT", outcome_text(w, eo, 0), o.msg.clone().unwrap_or_default().chars().take(160).collect::<String>())));
                }
                if !eo.faults.is_empty() && o.ok && scen.path == "missing" { v.push(("missing-found".into(), "lookup of a path that does not exist succeeded".into())); }
                // the kernel has already answered ENOENT for the path itself; if every deviating answer came afterwards (i.e. only
                // the internal attempt to get a better handle for a retry was disturbed), the caller must still be told ENOENT
                if scen.path == "missing" && !eo.faults.is_empty() && o.panic.is_none() && !o.ok {
                    let first_enoent = eo.events.iter().position(|e| matches!(e.name.as_str(), "openat2" | "openat") && e.rval == -(libc::ENOENT as i64) && e.injected.is_none() && e.fdid.as_ref().map(|i| i.fstype) == Some(PROC_MAGIC));
                    if let Some(j) = first_enoent {
                        if eo.faults.iter().all(|(i, _)| *i > j) && o.errno != Some(libc::ENOENT) {
                            v.push((format!("missing-not-enoent-after-retry-failure:{}", errname(o.errno.unwrap_or(-1))), format!("the path does not exist (the kernel said ENOENT at syscall {}), only the creation of a temporary handle for the retry failed afterwards, yet the lookup reported {} ({})", j, outcome_text(w, eo, 0), o.msg.clone().unwrap_or_default().chars().take(160).collect::<String>())));
                        }
                    }
                }
                // "true errors": an entry that exists but is hidden by the mount options of the /proc at hand must not be reported
                // as missing to a caller that is able to get a full private procfs (root with capabilities)
                if scen.path == "masked" && scen.op.name != "proc_readlink" && !it.unpriv && (it.mount_api == 0 || it.mount_api == 3) && eo.faults.is_empty() && o.panic.is_none() && !o.ok && o.errno == Some(libc::ENOENT) && scen.op.path.as_deref() != Some("1/nonexistent") {
                    v.push(("existing-reported-missing".into(), format!("privileged lookup of an existing but masked entry reported ENOENT ({})", o.msg.clone().unwrap_or_default().chars().take(160).collect::<String>())));
                }
            }
        }
        return Ok(v);
    }
    if prop == "C16" {
        match obs {
            None => v.push(("crash".into(), "worker died".into())),
            Some(o) => {
                if let Some(p) = &o.panic { v.push(("panic".into(), format!("panic: {}", p))); }
                else if !o.ok {
                    let ret = o.ret.unwrap_or(0);
                    if ret >= -4095 { v.push(("errno-like-id".into(), format!("failing call returned {} which is not below -4095", ret))); }
                    match &o.cerr {
                        None => v.push(("errorinfo-null".into(), format!("pathrs_errorinfo({}) returned NULL for a fresh id", ret))),
                        Some(ce) => {
                            if !ce.second_null { v.push(("delivered-twice".into(), "a second pathrs_errorinfo returned the error again".into())); }
                            let safety = ce.desc.contains("violation of safety requirement");
                            let storm = eo.faults.iter().any(|(_, f)| f == "EAGAINx16");
                            if (safety || storm) && ce.errno as i32 != libc::EXDEV { v.push((format!("safety-errno:{}", errname(ce.errno as i32)), format!("detected attack / EAGAIN storm reported errno {} ({}) instead of EXDEV", errname(ce.errno as i32), ce.desc))); }
                            // an injected errno must be the one reported (errno of the failing system call)
                            // the statement enumerates what the errno can be: the errno of the failing system call, EINVAL, EXDEV, ENOSYS -
                            // never "no errno at all"
                            if ce.errno == 0 { v.push(("errno-zero".into(), format!("pathrs_errorinfo reports errno 0 for a failed call ({})", ce.desc.chars().take(200).collect::<String>()))); }
                            // an operation that succeeds undisturbed and fails because exactly one system call was made to fail with E:
                            // the errno is E (or EXDEV if the library treats the failure as an attack), unless a system call that
                            // really failed after the injection is what ended the operation
                            else if let Some((i, f)) = eo.faults.first() {
                                if !f.starts_with("EAGAIN") && !f.starts_with("EXHAUST") && eo.faults.len() == 1 && BASELINE_OK.load(std::sync::atomic::Ordering::Relaxed) == 1 {
                                    let inj = eo.events.get(*i).and_then(|e| e.injected).unwrap_or(0);
                                    // (the error-formatting probes - absolute /proc/... reads - are not what ended the operation)
                                    let later_real: BTreeSet<i64> = eo.events.iter().skip(*i + 1).filter(|e| e.injected.is_none() && e.rval < 0 && e.rval > -4096 && !e.path.as_deref().map(|p| p.starts_with("/proc/")).unwrap_or(false)).map(|e| -e.rval).collect();
                                    if inj != 0 && ce.errno as i32 != inj && ce.errno as i32 != libc::EXDEV && !later_real.contains(&(ce.errno as i64)) {
                                        v.push((format!("errno-of-failing-syscall:{}:{}->{}", eo.events.get(*i).map(|e| e.name.clone()).unwrap_or_default(), f, errname(ce.errno as i32)), format!("the call succeeds undisturbed; syscall {} was made to fail with {}, the call failed, no later system call failed with {}, yet errorinfo reports errno {} ({})", eo.events.get(*i).map(|e| e.brief()).unwrap_or_default(), f, errname(ce.errno as i32), errname(ce.errno as i32), ce.desc.chars().take(240).collect::<String>())));
                                    }
                                }
                            }
                        }
                    }
                }
            }
        }
        return Ok(v);
    }
    if matches!(prop, "C02" | "C03" | "C10") {
        if eo.timeout || eo.horizon_hit { v.push(("hang".into(), format!("did not terminate within the horizon (timeout={}, horizon={})", eo.timeout, eo.horizon_hit))); return Ok(v); }
        if died {
            // class of the crash: signal, entry point, cold/warm lazies, kind of the injected deviation
            let dev = eo.faults.first().map(|(_, f)| if f.starts_with("EAGAIN") { "EAGAIN".to_string() } else { f.clone() }).or_else(|| eo.applied.first().map(|_| "attack".to_string())).unwrap_or_else(|| "none".into());
            v.push((format!("crash:sig{}:{}{}:{}", eo.killed.first().cloned().flatten().unwrap_or(0), if scen.op.api == "c" { "capi" } else { "rust" }, if it.warm { "" } else { "-cold" }, dev), format!("worker died: {}", outcome_text(w, eo, 0))));
            return Ok(v);
        }
        if let Some(p) = &panic { v.push((format!("panic:{}", site(p)), format!("panic: {}", p))); return Ok(v); }
        let o = obs.unwrap();
        if o.ok {
            if let Some(fd) = &o.fd {
                // a pre-existing object that was never reachable from the root (an inode the library itself created
                // during the call is judged through its parent directory by the monitors below)
                if fd.fstype == TMPFS_MAGIC && !eo.ever_inside.contains(&(fd.dev, fd.ino)) && w.labels.contains_key(&(fd.dev, fd.ino)) {
                    v.push(("escape".into(), format!("returned {} which was never inside the root", lab(w, (fd.dev, fd.ino)))));
                }
            }
        }
        if it.scripted.is_some() && o.ok {
            let srcs: Vec<(u64, u64)> = ["/src/secret-src", "/src/srcdir", "/src/srcdir/status"].iter().filter_map(|p| lstat(&out(p)).map(|s| (s.dev, s.ino))).collect();
            if let Some(fd) = &o.fd { if srcs.contains(&(fd.dev, fd.ino)) { v.push(("returned-overmount-source".into(), format!("returned the over-mounted object ({:?}) instead of failing or returning the procfs entry", fd.procpath))); } }
        }
        // violations that need a planted entry get keys of their own (operation, "after-plant"), so that the recorded limit of
        // remove_all / mkdir_all hides nothing else
        let planted = eo.applied.iter().any(|(_, m)| m.starts_with("plant("));
        let pk = |k: String| if planted { format!("{}:{}:after-plant", k, scen.op.name) } else { k };
        if let Some((k, d)) = containment_monitor(w, eo, prop != "C02") { v.push((pk(k), d)); }
        if prop != "C02" { if let Some((k, d)) = outside_effects(w, eo)? { v.push((pk(k), d)); } }
        // kernel backend: races inside one openat2 call cannot be enumerated at syscall granularity; the containment argument
        // there is the kernel's, and it only applies if every delegated walk is scoped (RESOLVE_IN_ROOT|RESOLVE_NO_MAGICLINKS)
        if matches!(prop, "C02" | "C03") {
            let mut scratch = BTreeMap::new();
            for (k, d) in discipline_monitor(&scen.op, eo, &mut scratch) { if k.starts_with("R2-resolve") { v.push(("unscoped-delegation".into(), d)); break; } }
        }
        if prop == "C10" {
            // an injected ENOENT / EEXIST / ENOTEMPTY is a claim about the state of the directory ("it is already gone / there");
            // the library is entitled to believe the kernel, so "success for work not done" is only judged for errnos that
            // say nothing about the state
            // (EINVAL from readlinkat is the kernel's way of saying "this is not a symlink": a claim about the object as well)
            let state_claim = eo.faults.iter().any(|(i, f)| matches!(f.as_str(), "ENOENT" | "EEXIST" | "ENOTEMPTY") || (f == "EINVAL" && eo.events.get(*i).map(|e| e.name == "readlinkat").unwrap_or(false)));
            if o.ok && eo.applied.is_empty() && !state_claim {
                if let Some(why) = postcondition(scen, o) { v.push((format!("false-success:{}", scen.op.name), why)); }
            }
            // EAGAIN semantics: 16 in a row => safety violation, fewer => as if nothing happened
            for (_, f) in &eo.faults {
                if (f == "EAGAINx16" || f == "EAGAINx17") && (o.ok || o.errno != Some(libc::EXDEV)) {
                    v.push((format!("eagain16:{}", scen.op.name), format!("16 consecutive EAGAINs from openat2 ended as {} instead of a safety violation", outcome_text(w, eo, 0))));
                }
                // fewer than 16: "as if nothing happened" - an operation that succeeds undisturbed must still succeed
                if (f == "EAGAIN" || f == "EAGAINx15") && !o.ok && o.errno != Some(libc::EAGAIN) && BASELINE_OK.load(std::sync::atomic::Ordering::Relaxed) == 1 && eo.faults.len() == 1 {
                    v.push((format!("eagain-not-retried:{}", scen.op.name), format!("{} EAGAIN(s) from openat2 turned an operation that succeeds undisturbed into {} ({})", if f == "EAGAIN" { "1" } else { "15" }, outcome_text(w, eo, 0), o.msg.clone().unwrap_or_default().chars().take(200).collect::<String>())));
                }
                if (f == "EAGAIN" || f == "EAGAINx15") && !o.ok && o.errno == Some(libc::EAGAIN) {
                    v.push((format!("eagain-not-retried:{}", scen.op.name), format!("{} EAGAIN(s) from openat2 surfaced as {} instead of being retried", if f == "EAGAIN" { "1" } else { "15" }, outcome_text(w, eo, 0))));
                }
            }
        }
    }
    Ok(v)
}

/// violation class: call sites (C05) do not depend on the backend, everything else is keyed per backend
fn vkey(prop: &str, scen: &Scenario, k: &str) -> String {
    if prop == "C05" { k.to_string() } else { format!("{}:{}", scen.backend, k) }
}

pub fn run_item(prop: &str, tier: &str, idx: usize, only: Option<&Value>) -> MResult<ItemResult> {
    let its = items(prop, tier);
    let it = its.get(idx).ok_or_else(|| Mach("bad item".into()))?.clone();
    enter_jail_opts(it.proc_opts.as_deref())?;
    install_alarm_handler();
    let mut res = ItemResult::default();
    let mut states: BTreeSet<u64> = BTreeSet::new();
    let mut nontrivial: BTreeSet<u64> = BTreeSet::new();
    let mut counts: BTreeMap<String, u64> = BTreeMap::new();
    // racing over-mounts of the caller's /proc as the attacker alphabet: all of C06's sysmc items, and C05's "overmounted" items
    let prop_is_c06 = prop == "C06" || it.scen.name.starts_with("overmounted:");
    if prop_is_c06 || it.scripted.is_some() { crate::mountmc::build_sources()?; }

    // one complete execution of `scen` under `ch`; returns the violations found
    let mut one = |scen: &Scenario, ch: &mut Chooser, res: &mut ItemResult, confirm: bool, counts: &mut BTreeMap<String, u64>| -> MResult<(Vec<(String, String)>, String)> {
        let w = fresh_world()?;
        let mode = match &it.plan {
            Plan::Attack { full, .. } if prop_is_c06 => Mode::Attack(mount_mutations(*full)),
            Plan::Attack { .. } if it.root_move => Mode::Attack(mutations_for(&scen.path, false).into_iter().filter(|m| m.name.starts_with("move(") || m.name.starts_with("plant(")).collect()),
            Plan::Attack { full, bound } => {
                let mut m = mutations_for(&scen.path, *full);
                // planting inside a moved-out directory: everywhere for lookups (C02 and the checks that ride on lookups); for
                // mutating operations only in the dedicated moved+planted items (C03 keeps its alphabet otherwise)
                if prop != "C02" && !matches!(scen.op.name.as_str(), "resolve" | "resolve_nofollow" | "open_subpath" | "readlink") { m.retain(|x| !x.name.starts_with("plant(")); }
                // bound >= 3: the directory-swapping core only (one walked directory exchanged for an escaping link / an outside
                // directory, moved out, moved back) - the moves every published attack on userspace resolvers is built from
                if *bound >= 3 { m.retain(|x| (x.name.contains("root/a/b,") || x.name.contains("(root/a/b->") || x.name.contains("->root/a/b)")) && !x.name.contains("evil-dir")); }
                Mode::Attack(m)
            }
            Plan::Trace => Mode::Trace,
            Plan::Fault { cfg, .. } => Mode::Fault(cfg.clone()),
            Plan::Sched { .. } => Mode::Sched,
        };
        let mut specs = vec![spec_for(&it, scen)];
        for o in &it.others { specs.push(spec_for(&it, o)); }
        let nworkers = specs.len();
        let cfg = ExecCfg { abort_on_noise: true, specs, mode, root_out: out(ROOT_IN), horizon: 300_000, timeout_s: 60, attack_procfs: prop_is_c06, scripted: it.scripted.clone() };
        let eo = execute(&cfg, ch)?;
        // An openat2 that the kernel aborted with EAGAIN on its own (something else on the machine renamed or mounted during
        // the call; our own mutations happen while the worker is stopped) changes the library's syscall sequence. Such an
        // execution is not a sample of the subject under the chosen schedule: it is repeated.
        if !confirm && eo.events.iter().any(|e| e.name == "openat2" && e.rval == -(libc::EAGAIN as i64) && e.injected.is_none()) {
            return mach("NOISE: kernel-initiated EAGAIN during this execution");
        }
        let otext = (0..nworkers).map(|i| outcome_text(&w, &eo, i)).collect::<Vec<_>>().join(" || ");
        if ch.trace.len() < ch.forced_len() {
            eprintln!("SHORT EXECUTION in {}: {} of {} forced choices consumed; events={} timeout={} horizon={} outcome={} exit={:?} killed={:?} last_events={:?}", scen.name, ch.trace.len(), ch.forced_len(), eo.events.len(), eo.timeout, eo.horizon_hit, otext, eo.exit, eo.killed, eo.events.iter().rev().take(3).map(|e| e.brief()).collect::<Vec<_>>());
        }
        if std::env::var("VMC_DEBUG").is_ok() {
            use std::io::Write;
            if let Ok(mut f) = std::fs::OpenOptions::new().create(true).append(true).open(format!("/verif/.build/debug-{}.log", std::process::id())) {
                let _ = writeln!(f, "{} choices={:?} events={} timeout={} horizon={} outcome={} first_events={:?}", scen.name, ch.choices(), eo.events.len(), eo.timeout, eo.horizon_hit, otext, eo.events.iter().take(4).map(|e| e.brief()).collect::<Vec<_>>());
            }
        }
        let devs: Vec<String> = eo.applied.iter().map(|(i, m)| format!("{}@{}", m, i)).chain(eo.faults.iter().map(|(i, f)| format!("{}@{}:{}", f, i, eo.events.get(*i).map(|e| e.sig()).unwrap_or_default()))).collect();
        if !confirm {
            res.evaluations += 1;
            res.transitions += eo.events.len() as u64;
            let mut tstate = String::new();
            let mut ai = 0;
            for (i, _) in eo.events.iter().enumerate() {
                while ai < eo.applied.len() && eo.applied[ai].0 <= i { tstate += &eo.applied[ai].1; ai += 1; }
                states.insert(hash64(&format!("{}|{}#{}", scen.name, tstate, i)));
            }
            let devnames: Vec<String> = eo.applied.iter().map(|(_, m)| m.clone()).chain(eo.faults.iter().map(|(i, f)| format!("{}:{}", f, eo.events.get(*i).map(|e| e.name.clone()).unwrap_or_default()))).collect();
            res.outcome(format!("{} after [{}]", otext, devnames.join(",")));
            if !devs.is_empty() || matches!(it.plan, Plan::Trace) { nontrivial.insert(hash64(&format!("{}{:?}", scen.name, devs))); }
            if matches!(it.plan, Plan::Sched { .. }) {
                // a schedule is the order in which the workers' tree-relevant syscalls were executed
                let order: String = eo.events.iter().filter(|e| e.tree_rel).map(|e| char::from(b'0' + e.w as u8)).collect();
                if eo.switches > 0 { nontrivial.insert(hash64(&order)); }
                res.max("context_switches", eo.switches as u64);
            }
            res.max("choice_points_per_execution", ch.trace.len() as u64);
            res.max("syscalls_per_execution", eo.events.len() as u64);
            res.count("syscalls_checked", eo.events.len() as u64);
            if res.samples.len() < 2 && (!devs.is_empty() || matches!(it.plan, Plan::Trace)) { res.sample(json!({"scenario": scen.name, "deviations": devs, "result": otext, "choices": ch.choices(), "syscalls": eo.events.len()})); }
        }
        let vs = judge(prop, &it, scen, &w, &eo, counts)?;
        let vs = vs.into_iter().map(|(k, d)| (k, format!("{}{} [{}]: {}", scen.name, if it.warm { "" } else { " (cold)" }, devs.join(", "), d))).collect();
        Ok((vs, otext))
    };

    if let Some(o) = only {
        let scen: Scenario = match o.get("bundle_index").and_then(|x| x.as_u64()) { Some(i) => it.bundle[i as usize].clone(), None => it.scen.clone() };
        let mut attempt = 0;
        let (vs, otext) = loop {
            let mut ch = Chooser::new(forced_from_json(&o["choices"]));
            match one(&scen, &mut ch, &mut res, true, &mut counts) {
                Err(Mach(m)) if (m.starts_with("NOISE") || m.starts_with("REPLAY DIVERGENCE")) && attempt < 40 => { attempt += 1; }
                r => break r?,
            }
        };
        println!("outcome: {}", otext);
        for (k, d) in vs { res.violate(vkey(prop, &scen, &k), d, o.clone()); }
        return Ok(res);
    }

    if !it.bundle.is_empty() {
        // sweep: independent single executions
        for (bi, scen) in it.bundle.iter().enumerate() {
            let mut ch = Chooser::new(vec![]);
            let mut attempt = 0;
            let (vs, _) = loop {
                match one(scen, &mut ch, &mut res, false, &mut counts) {
                    Err(Mach(m)) if m.starts_with("NOISE") && attempt < 60 => { attempt += 1; ch = Chooser::new(vec![]); }
                    r => break r?,
                }
            };
            for (k, d) in vs {
                res.violate(vkey(prop, scen, &k), d, json!({"engine": "sysmc", "item": idx, "bundle_index": bi, "scenario": scen.name, "choices": []}));
            }
        }
        res.bound_completed = Some(0);
    } else {
        let scen = it.scen.clone();
        let bound = match &it.plan { Plan::Attack { bound, .. } => *bound, Plan::Fault { bound, .. } => *bound, Plan::Sched { bound } => *bound, Plan::Trace => 0 };
        // determinism self-test: the undisturbed execution twice, identical syscall signatures. A run in which the kernel
        // answered EAGAIN to openat2 by itself (global rename/mount seqlocks disturbed by anything else on the machine)
        // is not a sample of the library's determinism and is repeated.
        let mut undisturbed: Option<Vec<String>> = None;
        let mut tries = 0;
        while tries < 20 {
            tries += 1;
            let _w = fresh_world()?;
            let cfg = ExecCfg { abort_on_noise: false, specs: vec![spec_for(&it, &scen)], mode: Mode::Trace, root_out: out(ROOT_IN), horizon: 300_000, timeout_s: 60, attack_procfs: prop_is_c06, scripted: None };
            let eo = execute(&cfg, &mut Chooser::new(vec![]))?;
            if eo.events.iter().any(|e| e.name == "openat2" && e.rval == -(libc::EAGAIN as i64)) { continue; }
            let sigs: Vec<String> = eo.events.iter().map(|e| e.sig()).collect();
            BASELINE_OK.store(match eo.final_obs(0) { Some(o) if o.ok && o.panic.is_none() => 1, _ => 0 }, std::sync::atomic::Ordering::Relaxed);
            match &undisturbed {
                None => undisturbed = Some(sigs),
                Some(prev) => {
                    if *prev != sigs {
                        let d = prev.iter().zip(sigs.iter()).position(|(a, b)| a != b).unwrap_or(prev.len().min(sigs.len()));
                        return mach(format!("DETERMINISM SELF-TEST FAILED for {}: two undisturbed runs differ at syscall {} ({:?} vs {:?}; lengths {} / {})", scen.name, d, prev.get(d), sigs.get(d), prev.len(), sigs.len()));
                    }
                    break;
                }
            }
        }
        let mut pending: Vec<(Vec<(u32, String)>, Vec<(String, String)>, String)> = Vec::new();
        let stats = explore(bound, it.max_exec, |ch| {
            let (vs, otext) = one(&scen, ch, &mut res, false, &mut counts)?;
            if !vs.is_empty() { pending.push((forced_of(ch), vs, otext)); }
            Ok(())
        })?;
        // confirm every failing execution by replaying its choice list (a spurious kernel EAGAIN may disturb a replay: up to 3 tries)
        for (forced, vs, otext) in pending {
            let keys: BTreeSet<String> = vs.iter().map(|x| x.0.clone()).collect();
            let mut confirmed = false;
            let mut last = String::new();
            let mut good = 0;
            for _ in 0..40 {
                if good >= 3 { break; }
                let mut ch = Chooser::new(forced.clone());
                // a replay disturbed by the kernel (EAGAIN from openat2 on its own, seen directly or as a divergence from the
                // recorded choice labels) is not an attempt
                let (vs2, o2) = match one(&scen, &mut ch, &mut res, true, &mut counts) {
                    Err(Mach(m)) if m.starts_with("NOISE") || m.starts_with("REPLAY DIVERGENCE") => continue,
                    r => r?,
                };
                good += 1;
                let keys2: BTreeSet<String> = vs2.iter().map(|x| x.0.clone()).collect();
                if keys2 == keys && o2 == otext { confirmed = true; break; }
                last = format!("{:?} {}", keys2, o2);
            }
            if !confirmed { return mach(format!("NON-REPRODUCIBLE failure in {}: first {:?} {}, on replay {}", scen.name, keys, otext, last)); }
            for (k, d) in vs { res.violate(vkey(prop, &scen, &k), d, json!({"engine": "sysmc", "item": idx, "scenario": scen.name, "choices": forced})); }
        }
        res.bound_completed = Some(if stats.capped { 0 } else { bound as u64 });
        if stats.capped { res.caps_hit.push(format!("{}: execution cap {} reached at bound {}", scen.name, it.max_exec, bound)); }
        res.count("executions", stats.executions);
    }
    res.states = states.len() as u64;
    res.traces_validated = res.evaluations;
    res.nontrivial = nontrivial.len() as u64;
    for (k, n) in counts { res.count(&format!("rule_{}", k), n); }
    Ok(res)
}

pub fn report(prop: &str, tier: &str) -> Report {
    let its = items(prop, tier);
    let nscen: usize = its.iter().map(|i| if i.bundle.is_empty() { 1 } else { i.bundle.len() }).sum();
    let th = tier == "thorough";
    let common = vec![
        "races inside a single system call are the kernel's business; schedules/faults are explored at syscall boundaries".to_string(),
        "Linux 6.18, tmpfs; kernel-without-X is simulated by ENOSYS answers (seccomp / ptrace injection)".to_string(),
    ];
    match prop {
        "C02" | "C03" => Report {
            level: "model_checking",
            rule: format!("{} scenarios (operation x path x backend on the race tree T_race{}); in every attack scenario every mutation of the alphabet ({} alphabet: exchange with a symlink to a decoy / an outside directory / a file, move out of the root and back, replace a link on the path, remove) is tried immediately before every tree-relevant syscall of the library, all schedules with <= {} mutations; non-trivial = distinct non-empty mutation placements (and every sweep input); states = distinct (scenario, tree state, syscall index)",
                nscen, if prop == "C03" { "; plus an input sweep of every mutating operation over 30 argument spellings incl. '.', '..', absolute paths and links pointing outside" } else { "" }, if th { "core" } else { "full" }, if th { 2 } else { 1 }),
            assumptions: [common, vec![
                "the attacker cannot rename the root directory or its ancestors (outside the library's threat model)".into(),
                "partial-order reduction: mutations are placed only before syscalls that read or write the tree's namespace (any other placement commutes); fstat on an open descriptor is independent of rename/exchange/unlink".into(),
                "an inode the library creates inside an ever-inside directory counts as inside".into(),
            ]].concat(),
            exhaustive: true,
            extra: json!({"scenarios": nscen, "deviation_bound": if th { 2 } else { 1 }}),
        },
        "C05" => Report {
            level: "exploration",
            rule: format!("{} executions: every lookup / mutating / reopen / procfs scenario and the argument sweep, x backends {{openat2, no openat2}} x {{warm, cold lazies}} x {{new mount API, fsopen+open_tree -> ENOSYS}}; EVERY syscall of every execution is checked against the allow-list automaton R1-R4 + close-on-exec + O_NOCTTY; distinct = distinct scenarios", nscen),
            assumptions: common, exhaustive: true, extra: json!({"executions": nscen}),
        },
        "C10" => Report {
            level: "fault_enumeration",
            rule: format!("{} scenarios; for every syscall index i of the scenario's trace ({}) and every errno of the class catalogue (first {} per class; thorough: the full catalogue) one execution with that single fault injected at i (ptrace: syscall skipped, -errno returned), plus EAGAIN x{{15,16,17}} runs on openat2 and descriptor exhaustion from i on; cold variants include first-use initialisation of the procfs handle; distinct = distinct (scenario, index, fault)", nscen, if th { "every syscall" } else { "path-taking and descriptor-creating syscalls" }, if th { 7 } else { 2 }),
            assumptions: common, exhaustive: true, extra: json!({"scenarios": nscen}),
        },
        "C08" => Report {
            level: "model_checking",
            rule: format!("{} executions: caller {{root, uid 1000 without capabilities}} x mount options of the /proc the process finds itself with {{default, hidepid=1, hidepid=2, hidepid=ptraceable, subset=pid, hidepid=2+subset=pid}} x handle {{ProcfsHandle::new(), global handle through the C API, try_from_fd(that /proc)}} x (base, sub-path) in {{missing x6, existing x3, masked-but-existing x3}} x {{open, readlink, open_follow}}, RLIMIT_NOFILE=256; plus the handle-construction protocol under every {} deviating answer(s) {{EPERM, ENOSYS, ENOENT}} of fsopen/fsconfig/fsmount/open_tree/open(\"/proc\")/faccessat2 (states = protocol positions reached, transitions = syscalls); oracle: missing => ENOENT, <= 4 procfs handles created and <= 24 descriptors held per lookup, termination within the horizon", nscen, if th { "pair of" } else { "single" }),
            assumptions: common, exhaustive: true, extra: json!({"executions": nscen}),
        },
        "C12" | "C13" => Report {
            level: "model_checking",
            rule: format!("{} groups of 2-3 concurrent {} callers (same path, prefix/child, siblings under a missing parent, through a link) x backends; callers are separate single-threaded processes stopped at every tree-relevant syscall; every interleaving with <= {} preemptions is executed; non-trivial = distinct interleavings with at least one context switch", its.len(), if prop == "C12" { "mkdir_all" } else { "remove_all" }, if th { "2 (two callers) / 1 (three callers)" } else { "1" }),
            assumptions: [common, vec!["concurrent libpathrs calls interact only through the filesystem (&self methods, no shared mutable memory besides once-initialised lazies), so processes model threads faithfully".into()]].concat(),
            exhaustive: true, extra: json!({"groups": its.len()}),
        },
        _ => Report {
            level: "fault_enumeration",
            rule: format!("{} scenarios: descriptor table (number -> object, close-on-exec) listed before and after every call of the lookup/mutating/reopen/procfs scenarios and the argument sweep (Rust and C entry points, both backends, warm and cold), under every single injected fault (path-taking/descriptor-creating syscalls) and under every single attacker mutation; distinct = distinct (scenario, deviation)", nscen),
            assumptions: common, exhaustive: true, extra: json!({"scenarios": nscen}),
        },
    }
}

/// debug helper: print the syscall trace of one undisturbed execution
pub fn trace_cmd(backend: &str, op: Op, warm: bool) -> MResult<()> {
    enter_jail()?;
    install_alarm_handler();
    let w = fresh_world()?;
    let mut os = oneshot(backend, op.clone(), warm);
    os.warmup.extend(handle_warmup(&op));
    let cfg = ExecCfg { abort_on_noise: false, specs: vec![os], mode: Mode::Trace, root_out: out(ROOT_IN), horizon: 500_000, timeout_s: 60, attack_procfs: false, scripted: None };
    let t0 = now();
    let eo = execute(&cfg, &mut Chooser::new(vec![]))?;
    for (i, e) in eo.events.iter().enumerate() {
        println!("{:4} {} {}{}", i, if e.tree_rel { "T" } else { " " }, e.brief(), e.fdid.as_ref().map(|d| format!("   <fd:{} {}>", d.link, if d.fstype == PROC_MAGIC { "proc" } else { "" })).unwrap_or_default());
    }
    println!("result: {}  ({} syscalls, {:.1} ms)", outcome_text(&w, &eo, 0), eo.events.len(), t0.elapsed().as_secs_f64() * 1e3);
    if let Some(o) = eo.final_obs(0) { println!("obs: {}", serde_json::to_string(o).unwrap()); }
    let mut counts = BTreeMap::new();
    for (k, d) in discipline_monitor(&op, &eo, &mut counts) { println!("C05 {}: {}", k, d); }
    println!("C05 counts: {:?}", counts);
    Ok(())
}
