//! C07: procfs lookups stay inside procfs and follow only the requested final link. Sub-paths are generated from the
//! live contents of the worker's own /proc entries; oracles come from the statement and from the kernel (stat through the
//! jail's /proc for what a magic-link points to); both procfs resolvers side by side.

use crate::ev::*;
use crate::gen::*;
use crate::sys::*;
use crate::wk::Wk;
use proto::*;
use serde_json::{json, Value};
use std::collections::BTreeSet;

fn list(dir: &str) -> Vec<String> {
    let mut v: Vec<String> = std::fs::read_dir(dir).map(|rd| rd.filter_map(|e| e.ok()).map(|e| e.file_name().to_string_lossy().into_owned()).collect()).unwrap_or_default();
    v.sort();
    v
}

fn mask(s: &str) -> String {
    let mut o = String::new();
    let mut ind = false;
    for c in s.chars() { if c.is_ascii_digit() { if !ind { o.push('#'); ind = true; } } else { ind = false; o.push(c); } }
    o
}

pub fn n_items(_tier: &str) -> usize { 3 } // one per base

/// entries whose content/behaviour is not stable enough to compare or that block
fn skip_entry(name: &str) -> bool { matches!(name, "map_files" | "kmsg" | "kcore" | "kpageflags" | "kpagecount" | "kpagecgroup" | "sysrq-trigger" | "pagemap" | "mem" | "clear_refs") }

pub fn run_item(tier: &str, idx: usize, only: Option<&Value>) -> MResult<ItemResult> {
    let th = tier == "thorough";
    let mut res = ItemResult::default();
    enter_jail()?;
    crate::lookup::build_decoys()?;
    let base = ["self", "thread-self", "root"][idx];
    let mut k = Wk::kernel()?;
    let mut e = Wk::emulated()?;
    k.timeout_ms = 60_000; e.timeout_ms = 60_000;
    let mut pids = Vec::new();
    for w in [&mut k, &mut e] {
        // descriptors of several inode types for the fd/ links: file, dir, fifo, symlink (O_PATH), device, socket-like
        std::fs::write(out("/w/file"), b"x").ok();
        let _ = std::fs::create_dir(out("/w/dir"));
        unsafe { let c = cs(&out("/w/fifo")); libc::mkfifo(c.as_ptr(), 0o644); let l = cs(&out("/w/lnk")); let t = cs("file"); libc::symlink(t.as_ptr(), l.as_ptr()); let n = cs(&out("/w/null")); libc::mknod(n.as_ptr(), libc::S_IFCHR | 0o666, 0x0103); }
        w.one(Op::new("raw_open").path("/w/file").flags(O_RDONLY).keep("f1"))?; w.one(Op::new("handle_at_fd").handle("f1").num(20))?;
        w.one(Op::new("raw_open").path("/w/dir").flags(O_RDONLY | O_DIRECTORY).keep("f2"))?; w.one(Op::new("handle_at_fd").handle("f2").num(21))?;
        w.one(Op::new("raw_open").path("/w/fifo").flags(O_RDONLY | O_NONBLOCK).keep("f3"))?; w.one(Op::new("handle_at_fd").handle("f3").num(22))?;
        w.one(Op::new("raw_open").path("/w/lnk").flags(O_PATH | O_NOFOLLOW).keep("f4"))?; w.one(Op::new("handle_at_fd").handle("f4").num(23))?;
        w.one(Op::new("raw_open").path("/w/null").flags(O_RDWR).keep("f5"))?; w.one(Op::new("handle_at_fd").handle("f5").num(24))?;
        w.one(Op::new("proc_new").keep("p"))?;
        pids.push(w.one(Op::new("getpid"))?.ret.unwrap_or(0));
    }
    let kpid = pids[0];
    // ---- sub-path generation from the live directory (of the K worker; the E worker has the same layout)
    let live = if base == "root" { out("/proc") } else { format!("{}/{}{}", out("/proc"), kpid, if base == "thread-self" { format!("/task/{}", kpid) } else { String::new() }) };
    let mut subs: BTreeSet<String> = BTreeSet::new();
    // the worker's own pid/tid appears in sub-paths as a placeholder and is substituted per worker
    let ph = |n: &str| -> String { if n == kpid.to_string() { "{PID}".to_string() } else { n.to_string() } };
    let top: Vec<String> = list(&live).into_iter().filter(|n| !skip_entry(n)).filter(|n| base != "root" || !n.chars().all(|c| c.is_ascii_digit())).collect();
    for n in &top {
        for d in [format!("{}", n), format!("{}/", n), format!("./{}", n), format!("{}/.", n), format!("{}/..", n), format!("../{}", n), format!("{}//", n), format!("/{}", n)] { subs.insert(d); }
        let p = format!("{}/{}", live, n);
        let is_dir = std::fs::symlink_metadata(&p).map(|m| m.is_dir()).unwrap_or(false);
        if is_dir && (th || matches!(n.as_str(), "fd" | "ns" | "task" | "attr" | "net" | "fdinfo" | "sys" | "tty" | "self" | "thread-self")) {
            for c in list(&p).into_iter().take(if th { 60 } else { 25 }) {
                if skip_entry(&c) { continue; }
                let c = ph(&c);
                subs.insert(format!("{}/{}", n, c));
                if th { subs.insert(format!("{}/{}/", n, c)); subs.insert(format!("{}/{}/..", n, c)); subs.insert(format!("{}/./{}", n, c)); }
            }
        }
    }
    // magic-links and absolute links used as *components*
    for c in ["root/etc", "cwd/w", "fd/21/x", "fd/21/..", "exe/x", "root/..", "cwd/..", "fd/20/.", "ns/mnt/x", "root", "cwd", "exe", "fd/20", "fd/21", "fd/22", "fd/23", "fd/24", "ns/mnt", "ns/pid", "..", "../..", ".", "", "./", "nonexistent", "nonexistent/x", "fd/999", "task/../status"] { if base != "root" { subs.insert(c.into()); } }
    if base == "root" { for c in ["self/root/etc", "self/cwd", "self/exe", "thread-self/fd/20", "self/fd/21/x", "sys/kernel/ostype", "sys/fs/protected_symlinks", "1/status", "1/root", "..", ".", "", "nonexistent", "self/../uptime", "mounts", "net", "self/net"] { subs.insert(c.into()); } }
    let flagsets: Vec<i64> = if th { vec![O_PATH, O_RDONLY, O_RDONLY | O_DIRECTORY, O_PATH | O_NOFOLLOW, O_RDONLY | O_NOFOLLOW, O_PATH | O_DIRECTORY, O_CREAT | O_RDWR, O_EXCL | O_RDONLY, O_TMPFILE | O_RDWR, O_CREAT | O_EXCL | O_WRONLY, (O_TMPFILE & !O_DIRECTORY) | O_RDWR, (O_TMPFILE & !O_DIRECTORY) | O_WRONLY] } else { vec![O_PATH, O_RDONLY | O_NONBLOCK, O_RDONLY | O_DIRECTORY, O_PATH | O_NOFOLLOW, O_CREAT | O_RDWR, O_TMPFILE | O_RDWR, O_EXCL | O_RDONLY, (O_TMPFILE & !O_DIRECTORY) | O_RDWR] };

    let magic = |sub: &str| -> bool { let s = sub.trim_start_matches("./").trim_end_matches('/'); let last2: Vec<&str> = s.rsplit('/').take(2).collect(); matches!(last2[0], "root" | "cwd" | "exe") || (last2.len() == 2 && matches!(last2[1], "fd" | "ns" | "map_files")) };
    for sub in &subs {
        // avoid opening things that block or have side effects
        if sub.contains("fd/22") || sub.contains("fd/0") && false { /* fifo links are fine with O_NONBLOCK / O_PATH */ }
        let mut ops: Vec<Op> = Vec::new();
        for &fl in &flagsets {
            let nb = if fl & O_PATH == 0 { O_NONBLOCK } else { 0 };
            ops.push(Op::new("proc_open").procfs("p").base(base).path(sub).flags(fl | nb));
            ops.push(Op::new("proc_open_follow").procfs("p").base(base).path(sub).flags(fl | nb));
        }
        ops.push(Op::new("proc_readlink").procfs("p").base(base).path(sub));
        ops.push(Op::new("proc_open").capi().base(base).path(sub).flags(O_PATH));
        ops.push(Op::new("proc_open").capi().base(base).path(sub).flags(O_PATH | O_NOFOLLOW));
        ops.push(Op::new("proc_readlink").capi().base(base).path(sub).bufsize(256));
        if let Some(o) = only { let want: Op = serde_json::from_value(o["op"].clone()).map_err(|e| Mach(e.to_string()))?; ops.retain(|x| *x == want); if ops.is_empty() { continue; } }
        let subst = |ops: &Vec<Op>, pid: i64| -> Vec<Op> { ops.iter().map(|o| { let mut o = o.clone(); o.path = o.path.map(|p| p.replace("{PID}", &pid.to_string())); o }).collect() };
        k.send(subst(&ops, pids[0]))?; e.send(subst(&ops, pids[1]))?;
        let ko = k.recv(ops.len())?; let eo = e.recv(ops.len())?;
        for (i, op) in ops.iter().enumerate() {
            res.evaluations += 2;
            let fl = op.flags.unwrap_or(0);
            let creation = fl & (O_CREAT | O_EXCL) != 0 || fl & (O_TMPFILE & !O_DIRECTORY) != 0; // the __O_TMPFILE bit alone: a trailing slash (=> O_DIRECTORY) would complete it
            let clean = sub.trim_end_matches('/');
            let comps: Vec<&str> = clean.split('/').filter(|c| !c.is_empty() && *c != ".").collect();
            let has_dotdot = comps.iter().any(|c| *c == "..");
            // a magic-link / absolute link strictly inside the path (not the last component)
            // open_follow treats a trailing slash as "follow the final link and demand a directory": the final link is not a component then
            let op_follows = op.name == "proc_open_follow" && fl & O_NOFOLLOW == 0 || (op.api == "c" && op.name == "proc_open" && fl & O_NOFOLLOW == 0);
            // a final '.' component (cwd/., fd/20/./) makes whatever stands in front of it a component, for every operation
            let ends_dot = clean == "." || clean.ends_with("/.");
            let inner_magic = (1..if (sub.ends_with('/') && !op_follows) || ends_dot { comps.len() + 1 } else { comps.len() }).any(|j| magic(&comps[..j].join("/")));
            if has_dotdot || inner_magic || creation || magic(sub) { res.nontrivial += 1; }
            for (wn, o, pid) in [("K", &ko[i], pids[0]), ("E", &eo[i], pids[1])] {
                let cls = if o.panic.is_some() { "PANIC".to_string() } else if o.ok { "ok".into() } else { errname(o.errno.unwrap_or(-1)) };
                res.outcome(format!("{}:{}", op.name, cls));
                let desc = format!("{} {} (base {})", wn, op.brief(), base);
                let replay = json!({"engine": "procmc", "item": idx, "sub": sub, "op": op, "worker": wn});
                if let Some(p) = &o.panic { res.violate(format!("{}:panic", wn), format!("{}: panic {}", desc, p), replay); continue; }
                // (iv) creation flags are refused
                if creation && op.api != "c" {
                    if o.ok || !(o.kind.as_deref() == Some("InvalidArgument") || o.errno == Some(libc::EINVAL)) {
                        // an earlier lookup error of the same call is an equally valid refusal only if the plain lookup fails too
                        let plain_fails = !ko[0].ok;
                        if o.ok || !plain_fails { res.violate(format!("{}:creation-flags:{}", wn, cls), format!("{}: creation flags must be refused as an invalid argument, got {}", desc, cls), replay); continue; }
                    }
                    continue;
                }
                // (i) never leaves the procfs instance
                if (inner_magic || (has_dotdot && (wn == "E" || escapes_lexically(&comps)))) && o.ok {
                    res.violate(format!("{}:left-procfs:{}", wn, if inner_magic { "magic-component" } else { "dotdot" }), format!("{}: succeeded although the path {} ({:?})", desc, if inner_magic { "uses a magic-link as a component" } else { "climbs with '..'" }, o.fd.as_ref().map(|f| f.procpath.clone())), replay);
                    continue;
                }
                if (inner_magic || has_dotdot && (wn == "E" || escapes_lexically(&comps))) && !matches!(o.errno, Some(libc::EXDEV) | Some(libc::ELOOP) | Some(libc::ENOENT) | Some(libc::ENOTDIR)) {
                    res.violate(format!("{}:escape-errno:{}", wn, cls), format!("{}: expected EXDEV/ELOOP for an escaping path, got {}", desc, cls), replay);
                    continue;
                }
                if let Some(fd) = &o.fd {
                    if fd.fstype != PROC_MAGIC && !(op.name == "proc_open_follow" || (op.api == "c" && fl & O_NOFOLLOW == 0)) {
                        res.violate(format!("{}:not-procfs", wn), format!("{}: returned an object that is not on procfs ({:?})", desc, fd.procpath), replay); continue;
                    }
                    if !fd.cloexec { res.violate(format!("{}:no-cloexec", wn), format!("{}: descriptor not close-on-exec", desc), replay); continue; }
                    // (ii) open never follows a trailing link
                    let follows = op.name == "proc_open_follow" && fl & O_NOFOLLOW == 0 || (op.api == "c" && op.name == "proc_open" && fl & O_NOFOLLOW == 0);
                    let lpath = format!("{}/{}/{}", out("/proc"), if base == "root" { String::new() } else if base == "self" { format!("{}", pid) } else { format!("{}/task/{}", pid, pid) }, clean.replace("{PID}", &pid.to_string()));
                    let lst = lstat(&lpath);
                    if let Some(l) = lst {
                        if l.is_lnk() && !sub.ends_with('/') {
                            if !follows && fd.mode & libc::S_IFMT != libc::S_IFLNK { res.violate(format!("{}:followed-trailing-link", wn), format!("{}: a non-following open returned the link's target ({:?})", desc, fd.procpath), replay); continue; }
                            if follows {
                                // (iii) exactly the object the kernel resolves for that link: what open(link, O_PATH) yields
                                // (a magic-link whose target is itself a symlink yields that symlink, it is not followed further)
                                let c = cs(&lpath);
                                let tfd = unsafe { libc::open(c.as_ptr(), libc::O_PATH | libc::O_CLOEXEC) };
                                if tfd >= 0 {
                                    let t = fstat(tfd).unwrap();
                                    unsafe { libc::close(tfd) };
                                    let same_instance_independent = fd.fstype == PROC_MAGIC; // inode numbers differ between procfs instances
                                    if !same_instance_independent && (t.dev, t.ino) != (fd.dev, fd.ino) { res.violate(format!("{}:wrong-target", wn), format!("{}: followed the link to {:?}, the kernel resolves it to inode {}:{}", desc, fd.procpath, t.dev, t.ino), replay); continue; }
                                    if same_instance_independent && (t.mode & libc::S_IFMT) != (fd.mode & libc::S_IFMT) { res.violate(format!("{}:wrong-target-type", wn), format!("{}: followed the link to an object of another type ({:?})", desc, fd.procpath), replay); continue; }
                                }
                            }
                        }
                    }
                }
            }
            // (v) K == E for non-empty sub-paths without '..'
            if !sub.is_empty() && !has_dotdot {
                let sig = |o: &Obs| -> String {
                    if o.ok { format!("ok type={:o} fl={:x} link={:?} text={:?} path={:?}", o.fd.as_ref().map(|f| f.mode & libc::S_IFMT).unwrap_or(0), o.fd.as_ref().map(|f| f.getfl & crate::lookup::GETFL_MASK).unwrap_or(0), o.fd.as_ref().and_then(|f| f.link.as_ref().map(|l| mask(l))), o.text.as_ref().map(|t| mask(t)), o.fd.as_ref().and_then(|f| f.procpath.as_ref().map(|p| mask(p)))) }
                    else { format!("{}/{}", errname(o.errno.unwrap_or(-1)), o.kind.clone().unwrap_or_default()) }
                };
                let (sk, se) = (sig(&ko[i]), sig(&eo[i]));
                if sk != se {
                    let kc = |o: &Obs| if o.ok { "ok".to_string() } else { errname(o.errno.unwrap_or(-1)) };
                    // a magic-link component whose readlink text is not a path at all ("mnt:[4026531841]", "pipe:[123]")
                    let upto = if sub.ends_with('/') { comps.len() + 1 } else { comps.len() };
                    let pseudo = (1..upto).any(|j| { let pre = comps[..j].join("/"); magic(&pre) && readlink(&format!("{}/{}/{}", out("/proc"), if base == "root" { String::new() } else if base == "self" { format!("{}", pids[0]) } else { format!("{}/task/{}", pids[0], pids[0]) }, pre)).map(|t| !t.starts_with('/')).unwrap_or(false) });
                    let shape = if pseudo { "pseudo-magic-component" } else if sub.starts_with('/') { "leading-slash" } else if sub.ends_with('/') { "trailing-slash" } else if sub.contains("//") { "double-slash" } else { "plain" };
                    res.violate(format!("resolver-divergence:{}:{}:K={} E={}{}", op.name, shape, kc(&ko[i]), kc(&eo[i]), if ko[i].ok && eo[i].ok { ":detail" } else { "" }), format!("{} (base {}): openat2 procfs resolver gives [{}], emulated gives [{}]", op.brief(), base, sk, se), json!({"engine": "procmc", "item": idx, "sub": sub, "op": op}));
                }
            }
            if res.samples.len() < 3 && (inner_magic || has_dotdot) { res.sample(json!({"base": base, "op": op.brief(), "K": ko[i].class(), "E": eo[i].class()})); }
        }
    }
    res.count("subpaths", subs.len() as u64);
    Ok(res)
}

/// does the path climb above its starting directory lexically?
fn escapes_lexically(comps: &[&str]) -> bool {
    let mut depth: i64 = 0;
    for c in comps { if *c == ".." { depth -= 1; if depth < 0 { return true; } } else { depth += 1; } }
    false
}

pub fn report(tier: &str) -> Report {
    Report {
        level: "exploration",
        rule: format!("bases {{self, thread-self, root}} x every entry of the live procfs directory of the worker (plus one level below fd/ns/task/attr/net/...{}) x decorations {{'', trailing '/', './', '/.', '/..', '../', '//', leading '/'}} plus magic-links used as components (root/etc, cwd/w, fd/N/x, exe/x), '..', '', nonexistent x flag sets (O_PATH, O_RDONLY, O_DIRECTORY, O_NOFOLLOW, O_CREAT, O_EXCL, O_TMPFILE) x {{open, open_follow, readlink, C pathrs_proc_open/readlink}} x both procfs resolvers; non-trivial = '..', magic-link component, magic-link final, creation flags", if tier == "thorough" { ", all directories, more decorations" } else { "" }),
        assumptions: vec!["the worker's descriptors 20-24 hold one object of each inode type so that fd/N links of every kind exist".into(), "what a magic-link points to is taken from the kernel (stat through the jail's /proc)".into(), "inode numbers are not compared across procfs instances".into()],
        exhaustive: true,
        extra: json!({}),
    }
}
