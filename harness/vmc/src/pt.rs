//! ptrace plumbing: spawn a one-shot worker under PTRACE_TRACEME, step it syscall by syscall, decode and inject.

use crate::sys::*;
use proto::*;
use std::io::Read;
use std::os::unix::process::CommandExt;
use std::process::{Child, Command, Stdio};

const PTRACE_GET_SYSCALL_INFO: libc::c_uint = 0x420e;
const PTRACE_O_TRACESYSGOOD: i64 = 1;
const PTRACE_O_EXITKILL: i64 = 0x100000;

#[repr(C)]
#[derive(Clone, Copy, Default)]
struct SyscallInfo {
    op: u8,
    pad: [u8; 3],
    arch: u32,
    ip: u64,
    sp: u64,
    // union: entry {nr, args[6]} | exit {rval, is_error}
    data: [u64; 7],
}

#[derive(Clone, Debug)]
pub struct SysDef {
    pub nr: i64,
    pub name: &'static str,
    /// index of the dirfd / fd argument (None: absolute or cwd-relative path syscall, or no fd)
    pub fd: Option<usize>,
    pub path: Option<usize>,
    pub fd2: Option<usize>,
    pub path2: Option<usize>,
    pub flags: Option<usize>,
}

const fn d(nr: i64, name: &'static str, fd: Option<usize>, path: Option<usize>, fd2: Option<usize>, path2: Option<usize>, flags: Option<usize>) -> SysDef {
    SysDef { nr, name, fd, path, fd2, path2, flags }
}

pub static SYSCALLS: &[SysDef] = &[
    d(0, "read", Some(0), None, None, None, None),
    d(1, "write", Some(0), None, None, None, None),
    d(2, "open", None, Some(0), None, None, Some(1)),
    d(3, "close", Some(0), None, None, None, None),
    d(4, "stat", None, Some(0), None, None, None),
    d(5, "fstat", Some(0), None, None, None, None),
    d(6, "lstat", None, Some(0), None, None, None),
    d(8, "lseek", Some(0), None, None, None, None),
    d(16, "ioctl", Some(0), None, None, None, None),
    d(17, "pread64", Some(0), None, None, None, None),
    d(21, "access", None, Some(0), None, None, None),
    d(32, "dup", Some(0), None, None, None, None),
    d(33, "dup2", Some(0), None, None, None, None),
    d(59, "execve", None, Some(0), None, None, None),
    d(72, "fcntl", Some(0), None, None, None, Some(1)),
    d(76, "truncate", None, Some(0), None, None, None),
    d(77, "ftruncate", Some(0), None, None, None, None),
    d(78, "getdents", Some(0), None, None, None, None),
    d(79, "getcwd", None, None, None, None, None),
    d(80, "chdir", None, Some(0), None, None, None),
    d(81, "fchdir", Some(0), None, None, None, None),
    d(82, "rename", None, Some(0), None, Some(1), None),
    d(83, "mkdir", None, Some(0), None, None, None),
    d(84, "rmdir", None, Some(0), None, None, None),
    d(85, "creat", None, Some(0), None, None, None),
    d(86, "link", None, Some(0), None, Some(1), None),
    d(87, "unlink", None, Some(0), None, None, None),
    d(88, "symlink", None, Some(1), None, None, None),
    d(89, "readlink", None, Some(0), None, None, None),
    d(90, "chmod", None, Some(0), None, None, None),
    d(91, "fchmod", Some(0), None, None, None, None),
    d(92, "chown", None, Some(0), None, None, None),
    d(93, "fchown", Some(0), None, None, None, None),
    d(94, "lchown", None, Some(0), None, None, None),
    d(133, "mknod", None, Some(0), None, None, None),
    d(137, "statfs", None, Some(0), None, None, None),
    d(138, "fstatfs", Some(0), None, None, None, None),
    d(161, "chroot", None, Some(0), None, None, None),
    d(165, "mount", None, Some(1), None, None, None),
    d(166, "umount2", None, Some(0), None, None, None),
    d(188, "setxattr", None, Some(0), None, None, None),
    d(191, "getxattr", None, Some(0), None, None, None),
    d(217, "getdents64", Some(0), None, None, None, None),
    d(257, "openat", Some(0), Some(1), None, None, Some(2)),
    d(258, "mkdirat", Some(0), Some(1), None, None, None),
    d(259, "mknodat", Some(0), Some(1), None, None, None),
    d(260, "fchownat", Some(0), Some(1), None, None, Some(4)),
    d(262, "newfstatat", Some(0), Some(1), None, None, Some(3)),
    d(263, "unlinkat", Some(0), Some(1), None, None, Some(2)),
    d(264, "renameat", Some(0), Some(1), Some(2), Some(3), None),
    d(265, "linkat", Some(0), Some(1), Some(2), Some(3), Some(4)),
    d(266, "symlinkat", Some(1), Some(2), None, None, None),
    d(267, "readlinkat", Some(0), Some(1), None, None, None),
    d(268, "fchmodat", Some(0), Some(1), None, None, None),
    d(269, "faccessat", Some(0), Some(1), None, None, None),
    d(280, "utimensat", Some(0), Some(1), None, None, Some(3)),
    d(285, "fallocate", Some(0), None, None, None, None),
    d(292, "dup3", Some(0), None, None, None, None),
    d(303, "name_to_handle_at", Some(0), Some(1), None, None, Some(4)),
    d(304, "open_by_handle_at", Some(0), None, None, None, None),
    d(316, "renameat2", Some(0), Some(1), Some(2), Some(3), Some(4)),
    d(322, "execveat", Some(0), Some(1), None, None, None),
    d(332, "statx", Some(0), Some(1), None, None, Some(2)),
    d(428, "open_tree", Some(0), Some(1), None, None, Some(2)),
    d(429, "move_mount", Some(0), Some(1), Some(2), Some(3), Some(4)),
    d(430, "fsopen", None, None, None, None, Some(1)),
    d(431, "fsconfig", Some(0), None, None, None, Some(1)),
    d(432, "fsmount", Some(0), None, None, None, Some(1)),
    d(433, "fspick", Some(0), Some(1), None, None, None),
    d(436, "close_range", None, None, None, None, None),
    d(437, "openat2", Some(0), Some(1), None, None, None),
    d(439, "faccessat2", Some(0), Some(1), None, None, Some(3)),
    d(442, "mount_setattr", Some(0), Some(1), None, None, None),
    d(452, "fchmodat2", Some(0), Some(1), None, None, None),
];

pub fn sysdef(nr: i64) -> Option<&'static SysDef> {
    SYSCALLS.iter().find(|s| s.nr == nr)
}

pub fn sysname(nr: i64) -> String {
    match sysdef(nr) {
        Some(s) => s.name.to_string(),
        None => match nr {
            7 => "poll".into(), 9 => "mmap".into(), 10 => "mprotect".into(), 11 => "munmap".into(), 12 => "brk".into(), 13 => "rt_sigaction".into(),
            14 => "rt_sigprocmask".into(), 28 => "madvise".into(), 39 => "getpid".into(), 62 => "kill".into(), 95 => "umask".into(), 102 => "getuid".into(), 104 => "getgid".into(),
            107 => "geteuid".into(), 108 => "getegid".into(), 131 => "sigaltstack".into(), 157 => "prctl".into(), 186 => "gettid".into(), 200 => "tkill".into(),
            202 => "futex".into(), 228 => "clock_gettime".into(), 231 => "exit_group".into(), 234 => "tgkill".into(), 318 => "getrandom".into(), 25 => "mremap".into(),
            n => format!("sys_{}", n),
        },
    }
}

#[derive(Clone, Debug, Default)]
pub struct FdId {
    pub dev: u64,
    pub ino: u64,
    pub mode: u32,
    pub fstype: i64,
    /// readlink of /proc/<pid>/fd/<n> as the supervisor sees it
    pub link: String,
}

#[derive(Clone, Debug, Default)]
pub struct Ev {
    pub w: usize,
    pub nr: i64,
    pub name: String,
    pub args: [u64; 6],
    pub path: Option<String>,
    pub path2: Option<String>,
    pub fd: Option<i32>,
    pub fd2: Option<i32>,
    pub fdid: Option<FdId>,
    pub fdid2: Option<FdId>,
    pub flags: Option<u64>,
    /// openat2: (flags, mode, resolve, size)
    pub how: Option<(u64, u64, u64, u64)>,
    pub rval: i64,
    pub injected: Option<i32>,
    pub ip: u64,
    pub tree_rel: bool,
    /// identity of the descriptor returned (open-like calls), filled at exit
    pub retid: Option<FdId>,
}

impl Ev {
    pub fn brief(&self) -> String {
        let mut s = format!("{}(", self.name);
        if let Some(fd) = self.fd { s += &format!("{}", if fd == libc::AT_FDCWD { "AT_FDCWD".to_string() } else { fd.to_string() }); }
        if let Some(p) = &self.path { s += &format!(", {:?}", if p.len() > 80 { &p[..80] } else { p }); }
        if let Some(fd) = self.fd2 { s += &format!(", {}", fd); }
        if let Some(p) = &self.path2 { s += &format!(", {:?}", p); }
        if let Some(f) = self.flags { s += &format!(", 0x{:x}", f); }
        if let Some(h) = self.how { s += &format!(", how{{flags=0x{:x},resolve=0x{:x}}} size={}", h.0, h.2, h.3); }
        s += &format!(") = {}", if self.rval < 0 { errname(-self.rval as i32) } else { self.rval.to_string() });
        if let Some(e) = self.injected { s += &format!(" [injected {}]", errname(e)); }
        s
    }
    /// label stable across replays: digits (pids, fd numbers in procfs paths) are masked
    pub fn sig(&self) -> String {
        let mask = |p: &str| -> String { let mut o = String::new(); let mut ind = false; for c in p.chars() { if c.is_ascii_digit() { if !ind { o.push('#'); ind = true; } } else { ind = false; o.push(c); } } o };
        format!("{}:{}", self.name, self.path.as_deref().map(|p| mask(if p.len() > 40 { &p[..40] } else { p })).unwrap_or_default())
    }
}

pub struct Tracee {
    pub pid: i32,
    pub child: Child,
    pub in_syscall: bool,
    pub finished: bool,
    pub exit_status: Option<i32>,
    pub killed_by: Option<i32>,
    pub output: Option<Vec<Obs>>,
    /// the traced process is a descendant of `child` (followed through setup-time forks)
    pub followed: bool,
}

#[derive(Debug)]
pub enum Stop {
    Entry,
    Exit,
    /// the worker raised SIGSTOP (BEGIN or END marker)
    Marker,
    Exited(i32),
    Killed(i32),
}

fn ptrace(req: libc::c_uint, pid: i32, addr: usize, data: usize) -> i64 {
    unsafe { libc::ptrace(req, pid, addr, data) }
}

extern "C" fn on_alarm(_: libc::c_int) {}

pub fn install_alarm_handler() {
    unsafe {
        let mut sa: libc::sigaction = std::mem::zeroed();
        sa.sa_sigaction = on_alarm as usize;
        sa.sa_flags = 0; // no SA_RESTART: waitpid returns EINTR
        libc::sigaction(libc::SIGALRM, &sa, std::ptr::null_mut());
    }
}

impl Tracee {
    pub fn spawn(spec: &OneShot) -> MResult<Tracee> {
        let js = serde_json::to_string(spec).unwrap();
        let mut cmd = Command::new(crate::wk::worker_bin());
        cmd.arg("oneshot").arg(js).stdin(Stdio::null()).stdout(Stdio::piped()).stderr(Stdio::inherit()).env_remove("RUST_BACKTRACE");
        unsafe {
            cmd.pre_exec(|| {
                if libc::ptrace(libc::PTRACE_TRACEME, 0, 0, 0) != 0 { return Err(std::io::Error::last_os_error()); }
                Ok(())
            });
        }
        let child = cmd.spawn().map_err(|e| Mach(format!("spawn traced worker: {}", e)))?;
        let pid = child.id() as i32;
        let mut t = Tracee { pid, child, in_syscall: false, finished: false, exit_status: None, killed_by: None, output: None, followed: false };
        // exec stop (SIGTRAP)
        let mut status = 0;
        let r = unsafe { libc::waitpid(pid, &mut status, libc::__WALL) };
        if r != pid || !libc::WIFSTOPPED(status) { return mach(format!("traced worker did not stop at exec (status {:x})", status)); }
        // a worker that moves itself into fresh namespaces forks twice during its setup: follow it to the last child
        let follow: i64 = (if spec.setup.userns { libc::PTRACE_O_TRACEFORK as i64 } else { 0 }) | (if spec.setup.thread_decoy.is_some() { libc::PTRACE_O_TRACECLONE as i64 } else { 0 });
        if ptrace(libc::PTRACE_SETOPTIONS, pid, 0, (PTRACE_O_TRACESYSGOOD | PTRACE_O_EXITKILL | follow) as usize) != 0 { return mach("PTRACE_SETOPTIONS failed"); }
        // free-run to the BEGIN marker
        t.cont_until_marker()?;
        Ok(t)
    }

    /// PTRACE_CONT until the worker raises SIGSTOP; other signals are passed through.
    pub fn cont_until_marker(&mut self) -> MResult<bool> {
        let mut sig: usize = 0;
        loop {
            if ptrace(libc::PTRACE_CONT, self.pid, 0, sig) != 0 { return mach(format!("PTRACE_CONT failed: errno {}", errno())); }
            let mut status = 0;
            let r = unsafe { libc::waitpid(self.pid, &mut status, libc::__WALL) };
            if r < 0 { if errno() == libc::EINTR { self.kill(); return mach("TIMEOUT waiting for worker (free-running)"); } return mach("waitpid failed"); }
            if libc::WIFEXITED(status) { self.finished = true; self.exit_status = Some(libc::WEXITSTATUS(status)); return Ok(false); }
            if libc::WIFSIGNALED(status) { self.finished = true; self.killed_by = Some(libc::WTERMSIG(status)); return Ok(false); }
            if libc::WIFSTOPPED(status) {
                let s = libc::WSTOPSIG(status);
                if (status >> 8) == (libc::SIGTRAP | (libc::PTRACE_EVENT_FORK << 8)) || (status >> 8) == (libc::SIGTRAP | (libc::PTRACE_EVENT_CLONE << 8)) {
                    // setup-time fork of a namespace-entering worker, or the operation thread of a worker whose caller has a private
                    // descriptor table: let the parent / leader run free (it only waits), trace the child / thread
                    let mut newpid: libc::c_ulong = 0;
                    if ptrace(libc::PTRACE_GETEVENTMSG, self.pid, 0, &mut newpid as *mut libc::c_ulong as usize) != 0 { return mach("PTRACE_GETEVENTMSG failed"); }
                    let newpid = newpid as i32;
                    let mut st2 = 0;
                    let r2 = unsafe { libc::waitpid(newpid, &mut st2, libc::__WALL) };
                    if r2 != newpid || !libc::WIFSTOPPED(st2) { return mach(format!("forked worker {} did not stop for its tracer (status {:x})", newpid, st2)); }
                    if ptrace(libc::PTRACE_DETACH, self.pid, 0, 0) != 0 { return mach("PTRACE_DETACH of the forking parent failed"); }
                    self.pid = newpid;
                    self.followed = true;
                    sig = 0;
                    continue;
                }
                if s == libc::SIGSTOP { return Ok(true); }
                if s == (libc::SIGTRAP | 0x80) { sig = 0; continue; }
                sig = s as usize;
            }
        }
    }

    /// One PTRACE_SYSCALL step.
    pub fn step(&mut self) -> MResult<Stop> {
        let mut sig: usize = 0;
        loop {
            if ptrace(libc::PTRACE_SYSCALL, self.pid, 0, sig) != 0 { return mach(format!("PTRACE_SYSCALL failed: errno {}", errno())); }
            let mut status = 0;
            let r = unsafe { libc::waitpid(self.pid, &mut status, libc::__WALL) };
            if r < 0 { if errno() == libc::EINTR { return Err(Mach("TIMEOUT".into())); } return mach("waitpid failed"); }
            if libc::WIFEXITED(status) { self.finished = true; self.exit_status = Some(libc::WEXITSTATUS(status)); return Ok(Stop::Exited(libc::WEXITSTATUS(status))); }
            if libc::WIFSIGNALED(status) { self.finished = true; self.killed_by = Some(libc::WTERMSIG(status)); return Ok(Stop::Killed(libc::WTERMSIG(status))); }
            if !libc::WIFSTOPPED(status) { continue; }
            let s = libc::WSTOPSIG(status);
            if s == (libc::SIGTRAP | 0x80) {
                self.in_syscall = !self.in_syscall;
                return Ok(if self.in_syscall { Stop::Entry } else { Stop::Exit });
            }
            if s == libc::SIGSTOP { return Ok(Stop::Marker); }
            // any other signal (SIGABRT from an abort, SIGSEGV, ...) is delivered
            sig = s as usize;
        }
    }

    fn info(&self) -> MResult<SyscallInfo> {
        let mut si = SyscallInfo::default();
        let r = ptrace(PTRACE_GET_SYSCALL_INFO, self.pid, std::mem::size_of::<SyscallInfo>(), &mut si as *mut SyscallInfo as usize);
        if r < 0 { return mach(format!("PTRACE_GET_SYSCALL_INFO failed: errno {}", errno())); }
        Ok(si)
    }

    pub fn read_mem(&self, addr: u64, len: usize) -> Vec<u8> {
        let mut buf = vec![0u8; len];
        let local = libc::iovec { iov_base: buf.as_mut_ptr() as *mut libc::c_void, iov_len: len };
        let remote = libc::iovec { iov_base: addr as *mut libc::c_void, iov_len: len };
        let n = unsafe { libc::process_vm_readv(self.pid, &local, 1, &remote, 1, 0) };
        if n < 0 { return Vec::new(); }
        buf.truncate(n as usize);
        buf
    }

    pub fn read_cstr(&self, addr: u64) -> Option<String> {
        if addr == 0 { return None; }
        let mut out = Vec::new();
        let mut a = addr;
        loop {
            // never cross a page boundary in one read
            let chunk = 4096 - (a as usize % 4096);
            let b = self.read_mem(a, chunk);
            if b.is_empty() { return Some(String::from_utf8_lossy(&out).into_owned()); }
            if let Some(p) = b.iter().position(|&c| c == 0) { out.extend_from_slice(&b[..p]); break; }
            out.extend_from_slice(&b);
            a += b.len() as u64;
            if out.len() > 16384 { break; }
        }
        Some(String::from_utf8_lossy(&out).into_owned())
    }

    pub fn fdid(&self, fd: i32) -> Option<FdId> {
        if fd < 0 { return None; }
        let p = format!("/proc/{}/fd/{}", self.pid, fd);
        let st = stat_follow(&p)?;
        let c = cs(&p);
        let mut sfs: libc::statfs = unsafe { std::mem::zeroed() };
        let fstype = if unsafe { libc::statfs(c.as_ptr(), &mut sfs) } == 0 { sfs.f_type as i64 } else { 0 };
        Some(FdId { dev: st.dev, ino: st.ino, mode: st.mode, fstype, link: readlink(&p).unwrap_or_default() })
    }

    /// Decode the syscall at an entry stop.
    pub fn decode_entry(&self, w: usize) -> MResult<Ev> {
        let si = self.info()?;
        if si.op != 1 { return mach(format!("expected syscall-entry stop, got op {}", si.op)); }
        let nr = si.data[0] as i64;
        let mut args = [0u64; 6];
        args.copy_from_slice(&si.data[1..7]);
        let mut ev = Ev { w, nr, name: sysname(nr), args, ip: si.ip, ..Default::default() };
        if let Some(def) = sysdef(nr) {
            if let Some(i) = def.fd { ev.fd = Some(args[i] as i32); ev.fdid = self.fdid(args[i] as i32); }
            if let Some(i) = def.fd2 { ev.fd2 = Some(args[i] as i32); ev.fdid2 = self.fdid(args[i] as i32); }
            if let Some(i) = def.path { ev.path = self.read_cstr(args[i]); }
            if let Some(i) = def.path2 { ev.path2 = self.read_cstr(args[i]); }
            if let Some(i) = def.flags { ev.flags = Some(args[i]); }
            if nr == 437 {
                let b = self.read_mem(args[2], 24);
                if b.len() == 24 {
                    let g = |o: usize| u64::from_ne_bytes(b[o..o + 8].try_into().unwrap());
                    ev.how = Some((g(0), g(8), g(16), args[3]));
                }
            }
            if nr == 266 { ev.path2 = self.read_cstr(args[0]); } // symlinkat target
            if nr == 430 { ev.path = self.read_cstr(args[0]); } // fsopen fs name
            if nr == 431 { ev.path = self.read_cstr(args[2]); ev.path2 = if args[1] == 1 { self.read_cstr(args[3]) } else { None }; } // fsconfig key/value
        }
        Ok(ev)
    }

    pub fn exit_rval(&self) -> MResult<i64> {
        let si = self.info()?;
        if si.op != 2 { return mach(format!("expected syscall-exit stop, got op {}", si.op)); }
        Ok(si.data[0] as i64)
    }

    /// At an entry stop: make the kernel skip the syscall (orig_rax = -1).
    pub fn skip_syscall(&self) -> MResult<()> {
        let mut regs: libc::user_regs_struct = unsafe { std::mem::zeroed() };
        if ptrace(libc::PTRACE_GETREGS, self.pid, 0, &mut regs as *mut _ as usize) != 0 { return mach("GETREGS failed"); }
        regs.orig_rax = u64::MAX;
        if ptrace(libc::PTRACE_SETREGS, self.pid, 0, &regs as *const _ as usize) != 0 { return mach("SETREGS failed"); }
        Ok(())
    }

    /// At an exit stop: overwrite the return value.
    pub fn set_rval(&self, v: i64) -> MResult<()> {
        let mut regs: libc::user_regs_struct = unsafe { std::mem::zeroed() };
        if ptrace(libc::PTRACE_GETREGS, self.pid, 0, &mut regs as *mut _ as usize) != 0 { return mach("GETREGS failed"); }
        regs.rax = v as u64;
        if ptrace(libc::PTRACE_SETREGS, self.pid, 0, &regs as *const _ as usize) != 0 { return mach("SETREGS failed"); }
        Ok(())
    }

    pub fn kill(&mut self) {
        unsafe { libc::kill(self.pid, libc::SIGKILL) };
        let mut status = 0;
        unsafe { libc::waitpid(self.pid, &mut status, libc::__WALL) };
        self.finished = true;
    }

    /// After the END marker: let the worker report and exit, collect its observations.
    pub fn finish(&mut self) -> MResult<()> {
        if !self.finished {
            // the worker may raise no further markers; run to exit
            loop {
                let more = self.cont_until_marker()?;
                if !more { break; }
            }
        }
        let mut s = String::new();
        if let Some(mut so) = self.child.stdout.take() { let _ = so.read_to_string(&mut s); }
        if self.followed { let _ = self.child.wait(); } else { let _ = self.child.try_wait(); }
        if let Some(line) = s.lines().last() {
            if let Ok(r) = serde_json::from_str::<Response>(line) { self.output = Some(r.obs); }
        }
        Ok(())
    }
}

impl Drop for Tracee {
    fn drop(&mut self) {
        if !self.finished { self.kill(); }
        if self.followed { let _ = self.child.wait(); } else { let _ = self.child.try_wait(); }
    }
}
