//! C06: procfs calls return only genuine procfs objects under any over-mounts. Static layouts (subsets of over-mountable
//! entries x over-mount kinds x handle kinds x resolvers) are enumerated here; racing mounts are explored by sysmc (sysprops C06).

use crate::ev::*;
use crate::gen::*;
use crate::sys::*;
use crate::wk::Wk;
use proto::*;
use serde_json::{json, Value};
use std::os::unix::io::AsRawFd;

#[derive(Clone, Debug, PartialEq)]
pub enum MKind { Tmpfs, BindFile, BindDir, BindProcFile, BindProcDir, BindMagicLink, BindSymlink }

#[derive(Clone, Debug)]
pub struct Target { pub rel: &'static str, pub dir: bool, pub link: bool }

pub fn targets() -> Vec<Target> {
    vec![
        Target { rel: "uptime", dir: false, link: false },
        Target { rel: "sys", dir: true, link: false },
        Target { rel: "self", dir: false, link: true },
        Target { rel: "thread-self", dir: false, link: true },
        Target { rel: "{PID}", dir: true, link: false },
        Target { rel: "{PID}/status", dir: false, link: false },
        Target { rel: "{PID}/fd", dir: true, link: false },
        Target { rel: "{PID}/fd/40", dir: false, link: true },
        Target { rel: "{PID}/exe", dir: false, link: true },
        Target { rel: "{PID}/attr/current", dir: false, link: false },
        Target { rel: "{PID}/ns/mnt", dir: false, link: true },
        Target { rel: "{PID}/task/{PID}/status", dir: false, link: false },
        Target { rel: "{PID}/task", dir: true, link: false },
    ]
}

pub fn kinds_for(t: &Target) -> Vec<MKind> {
    if t.dir { vec![MKind::Tmpfs, MKind::BindDir, MKind::BindProcDir] } else if t.link { vec![MKind::BindFile, MKind::BindProcFile, MKind::BindMagicLink, MKind::BindSymlink] } else { vec![MKind::BindFile, MKind::BindProcFile, MKind::BindMagicLink] }
}

/// sources (outside procfs unless stated), built once per shard
pub fn build_sources() -> MResult<()> {
    use crate::tree::*;
    let t = TreeSpec::default().file("secret-src").dir("srcdir").file("srcdir/status").file("srcdir/stat").file("srcdir/uptime").dir("srcdir/fd").link("srcdir/fd/40", "/src/secret-src")
        .link("srcdir/exe", "/src/secret-src").link("srcdir/cwd", "/w").dir("srcdir/attr").file("srcdir/attr/current").dir("srcdir/ns").file("srcdir/ns/mnt").dir("srcdir/kernel").file("srcdir/kernel/ostype")
        .dir("srcdir/task").file("file40").link("link-to-1", "1");
    // outside /w: the race world rebuilds /w for every execution
    let _ = std::fs::create_dir(out("/src"));
    if lstat(&out("/src/secret-src")).is_none() { t.build(&out("/src"))?; }
    // the same names below srcdir/<pid-like> are created lazily by mount_one for {PID} targets
    Ok(())
}

fn o_path_nofollow(p: &str) -> MResult<std::os::unix::io::OwnedFd> { open_path(p) }

/// Mount `kind` over `target_abs` (outside view). Symlink / file targets are addressed through an O_PATH|O_NOFOLLOW descriptor.
pub fn mount_one(kind: &MKind, target_abs: &str, other_pid: i64) -> Result<(), i32> {
    let tfd = o_path_nofollow(target_abs).map_err(|_| libc::ENOENT)?;
    let tpath = cs(&format!("/proc/self/fd/{}", tfd.as_raw_fd()));
    let (src, fstype, flags): (String, Option<&str>, libc::c_ulong) = match kind {
        MKind::Tmpfs => ("tmpfs".into(), Some("tmpfs"), 0),
        MKind::BindFile => (out("/src/secret-src"), None, libc::MS_BIND),
        MKind::BindDir => (out("/src/srcdir"), None, libc::MS_BIND),
        MKind::BindProcFile => (out("/proc/version"), None, libc::MS_BIND),
        MKind::BindProcDir => (format!("{}/{}", out("/proc"), other_pid), None, libc::MS_BIND),
        MKind::BindMagicLink => (format!("{}/{}/exe", out("/proc"), other_pid), None, libc::MS_BIND),
        // an ordinary symlink whose body ("1") is a valid entry of the procfs it is mounted into
        MKind::BindSymlink => (out("/src/link-to-1"), None, libc::MS_BIND),
    };
    // a symlink as bind source is addressed through a descriptor as well
    let sfd = if *kind == MKind::BindMagicLink || *kind == MKind::BindSymlink { Some(o_path_nofollow(&src).map_err(|_| libc::ENOENT)?) } else { None };
    let spath = cs(&match &sfd { Some(f) => format!("/proc/self/fd/{}", f.as_raw_fd()), None => src });
    let ft = fstype.map(cs);
    let r = unsafe { libc::mount(spath.as_ptr(), tpath.as_ptr(), ft.as_ref().map(|c| c.as_ptr()).unwrap_or(std::ptr::null()), flags, std::ptr::null()) };
    if r != 0 { return Err(errno()); }
    Ok(())
}

pub fn umount_one(target_abs: &str) -> Result<(), i32> {
    // the last component crosses into the mounted object even with O_NOFOLLOW, so this descriptor is the mount's root
    let tfd = o_path_nofollow(target_abs).map_err(|_| libc::ENOENT)?;
    let tpath = cs(&format!("/proc/self/fd/{}", tfd.as_raw_fd()));
    let r = unsafe { libc::umount2(tpath.as_ptr(), libc::MNT_DETACH) };
    if r != 0 { return Err(errno()); }
    Ok(())
}

pub fn mount_count() -> usize { std::fs::read_to_string("/proc/self/mountinfo").map(|s| s.lines().filter(|l| l.contains("/verif/.jail")).count()).unwrap_or(0) }

#[derive(Clone, Debug)]
struct Lookup { op: Op, trav: Vec<String>, follows: bool }

fn lookups(th: bool) -> Vec<Lookup> {
    let mut v = Vec::new();
    let t = |xs: &[&str]| xs.iter().map(|s| s.to_string()).collect::<Vec<_>>();
    let specs: Vec<(&str, &str, Vec<String>)> = vec![
        ("root", "uptime", t(&["uptime"])),
        ("root", "sys/kernel/ostype", t(&["sys", "sys/kernel", "sys/kernel/ostype"])),
        ("root", "self/status", t(&["self", "{PID}", "{PID}/status"])),
        ("self", "status", t(&["self", "{PID}", "{PID}/status"])),
        ("self", "fd/40", t(&["self", "{PID}", "{PID}/fd", "{PID}/fd/40"])),
        ("self", "exe", t(&["self", "{PID}", "{PID}/exe"])),
        ("self", "attr/current", t(&["self", "{PID}", "{PID}/attr", "{PID}/attr/current"])),
        ("self", "ns/mnt", t(&["self", "{PID}", "{PID}/ns", "{PID}/ns/mnt"])),
        ("thread-self", "status", t(&["thread-self", "{PID}", "{PID}/task", "{PID}/task/{PID}", "{PID}/task/{PID}/status"])),
        ("thread-self", "fd/40", t(&["thread-self", "{PID}", "{PID}/task", "{PID}/task/{PID}", "{PID}/task/{PID}/fd", "{PID}/task/{PID}/fd/40"])),
        ("root", "{PID}/status", t(&["{PID}", "{PID}/status"])),
        ("root", "self", t(&["self"])),
        ("root", "thread-self", t(&["thread-self"])),
    ];
    for (base, sub, trav) in specs {
        v.push(Lookup { op: Op::new("proc_open").base(base).path(sub).flags(O_PATH), trav: trav.clone(), follows: false });
        v.push(Lookup { op: Op::new("proc_open").base(base).path(sub).flags(O_RDONLY | O_NONBLOCK), trav: trav.clone(), follows: false });
        v.push(Lookup { op: Op::new("proc_readlink").base(base).path(sub), trav: trav.clone(), follows: false });
        v.push(Lookup { op: Op::new("proc_open_follow").base(base).path(sub).flags(O_PATH), trav: trav.clone(), follows: true });
        if th { v.push(Lookup { op: Op::new("proc_open_follow").base(base).path(sub).flags(O_RDONLY | O_NONBLOCK), trav: trav.clone(), follows: true }); v.push(Lookup { op: Op::new("proc_open").base(base).path(sub).flags(O_RDONLY | O_DIRECTORY), trav, follows: false }); }
    }
    v
}

/// handle kinds: (label, deny list, handle created before the over-mounts?, over-mounts visible to it?)
fn handle_kinds() -> Vec<(&'static str, Vec<&'static str>, bool, bool)> {
    vec![
        ("fsopen-private", vec![], false, false),
        ("fsopen-private-global-capi", vec![], true, false),
        ("open_tree-recursive-after", vec!["fsopen"], false, true),
        ("open_tree-recursive-before", vec!["fsopen"], true, false),
        ("plain-open", vec!["fsopen", "open_tree"], false, true),
        ("plain-open-before", vec!["fsopen", "open_tree"], true, true),
        ("user-fd", vec![], false, true),
    ]
}

pub fn n_items(_tier: &str) -> usize { handle_kinds().len() * 2 }

fn subst(s: &str, pid: i64) -> String { s.replace("{PID}", &pid.to_string()) }

fn sig(o: &Obs, pid: i64) -> String {
    let m = |s: &str| s.replace(&pid.to_string(), "#");
    if let Some(p) = &o.panic { return format!("PANIC {}", p); }
    if o.ok { format!("ok type={:o} proc={} link={:?} text={:?}", o.fd.as_ref().map(|f| f.mode & libc::S_IFMT).unwrap_or(0), o.fd.as_ref().map(|f| f.fstype == PROC_MAGIC).unwrap_or(false), o.fd.as_ref().and_then(|f| f.link.as_ref().map(|l| m(l))), o.text.as_ref().map(|t| m(t))) }
    else { errname(o.errno.unwrap_or(-1)) }
}

pub fn run_item(tier: &str, idx: usize, only: Option<&Value>) -> MResult<ItemResult> {
    let th = tier == "thorough";
    let mut res = ItemResult::default();
    enter_jail()?;
    crate::lookup::build_decoys()?;
    build_sources()?;
    let hk = handle_kinds()[idx / 2].clone();
    let emulated = idx % 2 == 1;
    let mut deny: Vec<String> = hk.1.iter().map(|s| s.to_string()).collect();
    if emulated { deny.push("openat2".into()); }
    let mut w = Wk::spawn(hk.0, &Setup { jail: JAIL.into(), deny, ..Default::default() })?;
    // a second process whose /proc/<pid> serves as "another procfs directory / magic-link" bind source
    let mut other = Wk::kernel()?;
    let other_pid = other.one(Op::new("getpid"))?.ret.unwrap_or(1);
    let pid = w.one(Op::new("getpid"))?.ret.unwrap_or(0);
    w.one(Op::new("raw_open").path("/src/file40").flags(O_RDONLY).keep("f40"))?;
    w.one(Op::new("handle_at_fd").handle("f40").num(40))?;
    // A user-supplied descriptor that is the root of a MOUNT but not of a procfs: a procfs sub-directory (/proc/<other pid>, /proc/sys)
    // bind-mounted somewhere. A handle made from it would answer "stat" with /proc/<pid>/stat: it must be refused, or at least never
    // hand out an object other than the requested path's (first two items only).
    if idx < 2 && only.map(|o| o["what"].as_str() == Some("subdir-root")).unwrap_or(true) {
        for (i, src) in [format!("{}/{}", out("/proc"), other_pid), format!("{}/sys", out("/proc")), format!("{}/self/task", out("/proc"))].iter().enumerate() {
            let tgt = out(&format!("/procsub{}", i));
            std::fs::create_dir_all(&tgt).map_err(|e| Mach(format!("mkdir {}: {}", tgt, e)))?;
            let (cs_, ct_) = (cs(src), cs(&tgt));
            if unsafe { libc::mount(cs_.as_ptr(), ct_.as_ptr(), std::ptr::null(), libc::MS_BIND, std::ptr::null()) } != 0 { res.count("mount_refused", 1); continue; }
            let o = w.one(Op::new("proc_from_path").path(&format!("/procsub{}", i)).keep("psub"))?;
            res.evaluations += 1; res.nontrivial += 1;
            res.outcome(format!("subdir-root:{}", if o.ok { "accepted".into() } else { errname(o.errno.unwrap_or(-1)) }));
            if o.ok {
                // accepted: then every answer must still be the requested procfs path's object
                for name in ["stat", "status", "kernel", "1"] {
                    let r = w.one(Op::new("proc_open").procfs("psub").base("root").path(name).flags(O_PATH))?;
                    // (inode numbers differ between procfs instances: the genuine object is recognised by where it sits - directly below
                    // the root of a procfs mount)
                    let pp = r.fd.as_ref().and_then(|f| f.procpath.clone()).unwrap_or_default();
                    let genuine = pp == format!("/{}", name) || pp == format!("/proc/{}", name);
                    if r.ok && !genuine {
                        res.violate("subdir-root-handle:wrong-object".to_string(), format!("[{} / {} resolver] try_from_fd accepted a bind mount of the procfs sub-directory {} as a procfs root, and open(ProcRoot, {:?}) then returned {:?} - not /proc/{}", hk.0, if emulated { "emulated" } else { "openat2" }, src.trim_start_matches(JAIL), name, r.fd.as_ref().and_then(|f| f.procpath.clone()), name),
                            json!({"engine": "mountmc", "item": idx, "what": "subdir-root", "source": src}));
                        break;
                    }
                }
            }
            unsafe { libc::umount2(ct_.as_ptr(), libc::MNT_DETACH) };
        }
        if only.is_some() { return Ok(res); }
    }
    let capi = hk.0.ends_with("capi");
    let user_fd = hk.0 == "user-fd";
    // the handle used for the lookups
    let before = hk.2;
    if before && !capi { w.one(Op::new("proc_new").keep("h"))?; }
    if capi { w.one(Op::new("proc_open").capi().base("self").path("status").flags(O_PATH))?; } // instantiates the global handle
    let prep = |o: &Op| -> Op {
        let mut o = o.clone();
        o.path = o.path.map(|p| subst(&p, pid));
        if capi { o = o.capi(); if o.name == "proc_open_follow" { o.name = "proc_open".into(); } else if o.name == "proc_open" { o.flags = Some(o.flags.unwrap_or(0) | O_NOFOLLOW); } o.bufsize = Some(512); }
        else if user_fd { o = o.procfs("u"); }
        else if before { o = o.procfs("h"); } else { o = o.procfs("new"); }
        o
    };
    let lks = lookups(th);
    let run_all = |w: &mut Wk| -> MResult<Vec<Obs>> {
        if user_fd { w.one(Op::new("proc_from_path").path("/proc").keep("u"))?; }
        w.call(lks.iter().map(|l| prep(&l.op)).collect())
    };
    // ---- baseline without over-mounts
    let base_obs = run_all(&mut w)?;
    let m0 = mount_count();
    // source identities
    let src_ids: Vec<(u64, u64)> = ["/src/secret-src", "/src/srcdir", "/src/srcdir/status", "/src/srcdir/fd", "/src/srcdir/exe", "/src/srcdir/attr/current", "/src/srcdir/ns/mnt"].iter().filter_map(|p| lstat(&out(p)).map(|s| (s.dev, s.ino))).collect();
    // ---- layouts: every single over-mount (thorough: every pair)
    let tg = targets();
    let mut layouts: Vec<Vec<(usize, MKind)>> = Vec::new();
    for (i, t) in tg.iter().enumerate() { for k in kinds_for(t) { layouts.push(vec![(i, k)]); } }
    if th { let singles = layouts.clone(); for a in &singles { for b in &singles { if a[0].0 < b[0].0 { layouts.push(vec![a[0].clone(), b[0].clone()]); } } } }
    for (li, layout) in layouts.iter().enumerate() {
        if let Some(o) = only { if o["layout_index"].as_u64() != Some(li as u64) { continue; } }
        // apply; deeper targets first so that a mount on a parent does not hide the path of a child target
        let mut order: Vec<&(usize, MKind)> = layout.iter().collect();
        order.sort_by_key(|(i, _)| std::cmp::Reverse(tg[*i].rel.matches('/').count()));
        let mut applied: Vec<String> = Vec::new();
        let mut skip = false;
        for (i, k) in &order {
            let abs = format!("{}/{}", out("/proc"), subst(tg[*i].rel, pid));
            match mount_one(k, &abs, other_pid) { Ok(()) => applied.push(abs), Err(e) => { res.count(&format!("mount_refused_{}", errname(e)), 1); res.outcome(format!("mount-refused:{:?} over {}: {}", k, tg[*i].rel, errname(e))); skip = true; break; } }
        }
        if !skip {
            let obs = run_all(&mut w)?;
            let mounted: Vec<String> = layout.iter().map(|(i, _)| tg[*i].rel.to_string()).collect();
            let ldesc = layout.iter().map(|(i, k)| format!("{:?} over {}", k, tg[*i].rel)).collect::<Vec<_>>().join(" + ");
            for (j, l) in lks.iter().enumerate() {
                let o = &obs[j];
                let b = &base_obs[j];
                res.evaluations += 1;
                res.transitions += 1;
                let crossed = l.trav.iter().any(|t| mounted.contains(t));
                // open_follow on an ORDINARY procfs symlink (self, thread-self) lets the kernel follow the link: over-mounts on the
                // link's target are then not checked (recorded finding, keyed separately so that nothing else hides behind it)
                let sub = l.op.path.clone().unwrap_or_default();
                let target_trav: Vec<&str> = if l.follows && sub == "self" { vec!["{PID}"] } else if l.follows && sub == "thread-self" { vec!["{PID}", "{PID}/task", "{PID}/task/{PID}"] } else { vec![] };
                let target_crossed = target_trav.iter().any(|t| mounted.iter().any(|m| m == t));
                if hk.3 && target_crossed && !crossed {
                    let good = !o.ok && o.errno == Some(libc::EXDEV);
                    if !good { res.violate("open_follow-ordinary-symlink-target-overmounted".to_string(), format!("[{} / {}] {} with {}: the kernel follows the ordinary symlink onto the over-mounted target: {}", hk.0, if emulated { "emulated resolver" } else { "openat2 resolver" }, prep(&l.op).brief(), ldesc, sig(o, pid)), json!({"engine": "mountmc", "item": idx, "layout_index": li, "lookup_index": j})); }
                    continue;
                }
                // following the final magic-link leaves procfs by design; what is crossed before it still counts
                if crossed { res.nontrivial += 1; }
                let visible = hk.3;
                let desc = format!("[{} / {}] {} with {}", hk.0, if emulated { "emulated resolver" } else { "openat2 resolver" }, prep(&l.op).brief(), ldesc);
                let replay = json!({"engine": "mountmc", "item": idx, "layout_index": li, "lookup_index": j, "layout": ldesc});
                res.outcome(format!("{}:{}:{}", if visible { "visible" } else { "private" }, if crossed { "crossed" } else { "clear" }, if o.ok { "ok".into() } else { errname(o.errno.unwrap_or(-1)) }));
                if let Some(p) = &o.panic { res.violate("panic".to_string(), format!("{}: panic {}", desc, p), replay); continue; }
                if o.ok {
                    if let Some(fd) = &o.fd {
                        if src_ids.contains(&(fd.dev, fd.ino)) { res.violate(format!("returned-overmount-source:{}", if visible { "visible" } else { "private" }), format!("{}: returned the over-mounted object ({:?}) instead of the procfs entry", desc, fd.procpath), replay); continue; }
                        if !l.follows && fd.fstype != PROC_MAGIC { res.violate("not-procfs".to_string(), format!("{}: returned an object that is not on procfs ({:?})", desc, fd.procpath), replay); continue; }
                    }
                    if sig(o, pid) != sig(b, pid) {
                        res.violate(format!("differs-from-pristine:{}", if visible { "visible" } else { "private" }), format!("{}: result [{}] differs from the answer without over-mounts [{}]", desc, sig(o, pid), sig(b, pid)), replay); continue;
                    }
                    if visible && crossed {
                        res.violate("crossed-overmount-succeeded".to_string(), format!("{}: the over-mount lies on the lookup's way and is visible to this handle, yet the call succeeded ({})", desc, sig(o, pid)), replay); continue;
                    }
                } else {
                    if !visible && b.ok { res.violate(format!("private-handle-affected:{}", errname(o.errno.unwrap_or(-1))), format!("{}: a handle that cannot see the over-mount failed with {} ({})", desc, errname(o.errno.unwrap_or(-1)), o.msg.clone().unwrap_or_default().chars().take(200).collect::<String>()), replay); continue; }
                    if visible && crossed && b.ok && o.errno != Some(libc::EXDEV) { res.violate(format!("overmount-errno:{}", errname(o.errno.unwrap_or(-1))), format!("{}: expected EXDEV for a visible over-mount, got {} ({})", desc, errname(o.errno.unwrap_or(-1)), o.msg.clone().unwrap_or_default().chars().take(200).collect::<String>()), replay); continue; }
                    if visible && !crossed && b.ok { res.violate(format!("unrelated-overmount-breaks-lookup:{}", errname(o.errno.unwrap_or(-1))), format!("{}: the over-mount is not on this lookup's way, yet it failed with {}", desc, errname(o.errno.unwrap_or(-1))), replay); continue; }
                }
                if res.samples.len() < 3 && crossed { res.sample(json!({"case": desc, "result": sig(o, pid), "pristine": sig(b, pid)})); }
            }
            res.count("layouts", 1);
        }
        // tear down in reverse order
        for abs in applied.iter().rev() { if let Err(e) = umount_one(abs) { return mach(format!("cannot remove over-mount {}: {}", abs, errname(e))); } }
        if mount_count() != m0 { return mach(format!("over-mounts leaked after layout {} ({} vs {})", li, mount_count(), m0)); }
    }
    res.states = res.counters.get("layouts").copied().unwrap_or(0);
    res.traces_validated = res.evaluations;
    let _ = other.one(Op::new("nop"));
    Ok(res)
}

pub fn report(tier: &str) -> Report {
    let th = tier == "thorough";
    Report {
        level: "model_checking",
        rule: format!("static layouts: every {} of over-mountable entries {{uptime, sys, self, thread-self, <pid>, <pid>/status, <pid>/fd, <pid>/fd/40, <pid>/exe, <pid>/attr/current, <pid>/ns/mnt, <pid>/task, <pid>/task/<tid>/status}} x kinds {{tmpfs, bind of a foreign directory, bind of another process's procfs directory | bind of a foreign file, bind of another procfs file, bind of another process's magic-link}} x handle kinds {{private fsopen (new() and the global handle through the C API), open_tree clone taken after / before the over-mount, plain open of /proc after / before, user-supplied descriptor}} x both procfs resolvers x {} lookups (open / readlink / open_follow across bases root, self, thread-self); oracle: the answers of the same handle kind without over-mounts, source identities, and the traversal set of each lookup; racing part: one mount or umount at every syscall boundary of non-following opens (sysmc). states = layouts, transitions = lookups; non-trivial = the over-mount lies on the lookup's way",
            if th { "single entry and every pair" } else { "single entry" }, lookups(th).len()),
        assumptions: vec!["mounts are made in the shard's private mount namespace on the jail's /proc (which plays the host's /proc)".into(), "Linux 6.18 reports mount ids (STATX_MNT_ID)".into(), "kernel-without-openat2 / new mount API simulated by seccomp ENOSYS".into()],
        exhaustive: true,
        extra: json!({}),
    }
}
