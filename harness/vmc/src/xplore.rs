//! Explorer core: deviation-bounded depth-first enumeration of choice sequences with strict replay discipline.

use crate::sys::*;

#[derive(Clone, Debug)]
pub struct Point {
    pub label: String,
    pub n: u32,
    pub chosen: u32,
    /// cost of taking a non-default alternative here
    pub cost: u32,
}

pub struct Chooser {
    forced: Vec<(u32, String)>,
    pub trace: Vec<Point>,
}

impl Chooser {
    pub fn new(forced: Vec<(u32, String)>) -> Chooser { Chooser { forced, trace: Vec::new() } }

    /// Returns a value in 0..n. 0 is the default (undisturbed) choice. While replaying a prefix the label must match.
    pub fn choose(&mut self, label: &str, n: u32, cost: u32) -> MResult<u32> {
        let i = self.trace.len();
        let chosen = if i < self.forced.len() {
            let (c, l) = &self.forced[i];
            if l != label { return mach(format!("REPLAY DIVERGENCE at choice {}: recorded label {:?}, now {:?}", i, l, label)); }
            if *c >= n { return mach(format!("REPLAY DIVERGENCE at choice {}: forced {} out of range {}", i, c, n)); }
            *c
        } else { 0 };
        self.trace.push(Point { label: label.to_string(), n, chosen, cost });
        Ok(chosen)
    }

    pub fn forced_len(&self) -> usize { self.forced.len() }
    pub fn choices(&self) -> Vec<u32> { self.trace.iter().map(|p| p.chosen).collect() }
    pub fn deviations(&self) -> u32 { self.trace.iter().map(|p| if p.chosen != 0 { p.cost } else { 0 }).sum() }
}

#[derive(Default, Debug)]
pub struct XStats {
    pub executions: u64,
    pub choice_points: u64,
    pub max_points: u64,
    pub capped: bool,
}

/// Run `f` on the undisturbed schedule and on every schedule with at most `bound` deviations.
/// `f` gets the chooser, performs one complete execution and judges it. `max_exec` caps the number of executions
/// (reported, never silently).
pub fn explore<F>(bound: u32, max_exec: u64, mut f: F) -> MResult<XStats>
where
    F: FnMut(&mut Chooser) -> MResult<()>,
{
    let mut stats = XStats::default();
    let mut stack: Vec<Vec<(u32, String)>> = vec![vec![]];
    while let Some(prefix) = stack.pop() {
        if stats.executions >= max_exec { stats.capped = true; break; }
        let plen = prefix.len();
        let mut ch = Chooser::new(prefix.clone());
        let mut attempt = 0;
        loop {
            match f(&mut ch) {
                Ok(()) if ch.trace.len() < plen && attempt < 8 => { attempt += 1; ch = Chooser::new(prefix.clone()); }
                Ok(()) => break,
                // environment noise (a spurious kernel EAGAIN changes the library's syscall sequence): re-run the prefix
                Err(Mach(m)) if m.starts_with("REPLAY DIVERGENCE") && attempt < 20 => { attempt += 1; ch = Chooser::new(prefix.clone()); }
                // the kernel disturbed this execution by itself (spurious EAGAIN from openat2): not a sample of the subject, run it again
                Err(Mach(m)) if m.starts_with("NOISE") && attempt < 60 => { attempt += 1; ch = Chooser::new(prefix.clone()); }
                Err(e) => return Err(e),
            }
        }
        if ch.trace.len() < plen { return mach("REPLAY DIVERGENCE: execution ended before the forced prefix was consumed"); }
        stats.executions += 1;
        stats.choice_points += ch.trace.len() as u64;
        stats.max_points = stats.max_points.max(ch.trace.len() as u64);
        // branch on every later point
        let mut devs = 0u32;
        let mut branches = Vec::new();
        for (i, p) in ch.trace.iter().enumerate() {
            if i >= plen && p.n > 1 && devs + p.cost <= bound {
                for alt in 1..p.n {
                    let mut np: Vec<(u32, String)> = ch.trace[..i].iter().map(|q| (q.chosen, q.label.clone())).collect();
                    np.push((alt, p.label.clone()));
                    branches.push(np);
                }
            }
            if p.chosen != 0 { devs += p.cost; }
        }
        // reverse so that the earliest deviation is explored first (stack)
        branches.reverse();
        stack.extend(branches);
    }
    Ok(stats)
}
