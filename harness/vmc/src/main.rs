#![allow(dead_code)]
//! vmc - the model checker front end.
//!   vmc check  <Cxx> --tier quick|thorough      parent: enumerates items, runs them in jailed child processes, writes evidence
//!   vmc item   <Cxx> <tier> <idx>               child: one work item inside its own mount namespace + tmpfs jail
//!   vmc replay <Cxx> <file>                     re-run exactly one recorded execution

mod c15;
mod c16;
mod capimc;
mod ev;
mod gen;
mod handlemc;
mod lookup;
mod mountmc;
mod mutmc;
mod procmc;
mod pt;
mod rm;
mod scen;
mod sys;
mod sysmc;
mod sysprops;
mod tree;
mod wk;
mod xplore;

use ev::*;
use serde_json::Value;

fn n_items(prop: &str, tier: &str) -> usize {
    match prop {
        "C01" => lookup::n_items(tier),
        "C04" => lookup::n_items(tier) + mutmc::n_items(prop, tier),
        "C12" | "C13" => mutmc::n_items(prop, tier) + sysprops::n_items(prop, tier),
        "C14" => mutmc::n_items(prop, tier),
        "C09" => handlemc::n_items(tier),
        "C17" => capimc::n_items(tier),
        "C16" => c16::n_items(tier),
        "C15" => c15::n_items(tier),
        "C07" => procmc::n_items(tier),
        "C06" => mountmc::n_items(tier) + sysprops::n_items(prop, tier),
        "C02" | "C03" | "C05" | "C08" | "C10" | "C11" => sysprops::n_items(prop, tier),
        _ => 0,
    }
}

fn run_item(prop: &str, tier: &str, idx: usize, only: Option<&Value>) -> sys::MResult<ItemResult> {
    match prop {
        "C01" => lookup::run_item(prop, tier, idx, only),
        "C04" => { let nl = lookup::n_items(tier); let engine = only.and_then(|o| o["engine"].as_str().map(|s| s.to_string())); if engine.as_deref() == Some("mutmc") || (engine.is_none() && idx >= nl) { mutmc::run_item(prop, tier, if engine.is_some() { idx } else { idx - nl }, only) } else { lookup::run_item(prop, tier, idx, only) } }
        "C12" | "C13" => { let nm = mutmc::n_items(prop, tier); let engine = only.and_then(|o| o["engine"].as_str().map(|s| s.to_string())); if engine.as_deref() == Some("sysmc") { sysprops::run_item(prop, tier, idx, only) } else if engine.as_deref() == Some("mutmc") || idx < nm { mutmc::run_item(prop, tier, idx, only) } else { sysprops::run_item(prop, tier, idx - nm, only) } }
        "C14" => mutmc::run_item(prop, tier, idx, only),
        "C09" => handlemc::run_item(tier, idx, only),
        "C17" => capimc::run_item(tier, idx, only),
        "C16" => c16::run_item(tier, idx, only),
        "C15" => c15::run_item(tier, idx, only),
        "C07" => procmc::run_item(tier, idx, only),
        "C06" => { let nm = mountmc::n_items(tier); let engine = only.and_then(|o| o["engine"].as_str().map(|s| s.to_string())); if engine.as_deref() == Some("sysmc") { sysprops::run_item(prop, tier, idx, only) } else if engine.as_deref() == Some("mountmc") || idx < nm { mountmc::run_item(tier, idx, only) } else { sysprops::run_item(prop, tier, idx - nm, only) } }
        "C02" | "C03" | "C05" | "C08" | "C10" | "C11" => sysprops::run_item(prop, tier, idx, only),
        _ => sys::mach(format!("no engine for {}", prop)),
    }
}

fn report(prop: &str, tier: &str) -> Report {
    match prop {
        "C01" => lookup::report(prop, tier),
        "C04" => { let mut r = lookup::report(prop, tier); let m = mutmc::report(prop, tier); r.rule = format!("(lookups) {} || (mutating operations) {}", r.rule, m.rule); r }
        "C12" | "C13" => { let mut r = mutmc::report(prop, tier); let c = sysprops::report(prop, tier); r.rule = format!("(sequential) {} || (concurrent) {}", r.rule, c.rule); r.assumptions.extend(c.assumptions); r }
        "C14" => mutmc::report(prop, tier),
        "C09" => handlemc::report(tier),
        "C17" => capimc::report(tier),
        "C16" => c16::report(tier),
        "C15" => c15::report(tier),
        "C07" => procmc::report(tier),
        "C06" => mountmc::report(tier),
        "C02" | "C03" | "C05" | "C08" | "C10" | "C11" => sysprops::report(prop, tier),
        _ => unreachable!(),
    }
}

fn budget(prop: &str, tier: &str) -> u64 {
    let _ = prop;
    if tier == "quick" { 600 } else { 6 * 3600 }
}

fn main() {
    let args: Vec<String> = std::env::args().collect();
    if args.len() < 3 { eprintln!("usage: vmc check|item|replay ..."); std::process::exit(2); }
    let seed: u64 = std::env::var("VERIF_SEED").ok().and_then(|s| s.parse().ok()).unwrap_or(0);
    match args[1].as_str() {
        "check" => {
            let prop = args[2].clone();
            let mut tier = std::env::var("VERIF_TIER").unwrap_or_else(|_| "quick".into());
            let mut i = 3;
            while i < args.len() { if args[i] == "--tier" && i + 1 < args.len() { tier = args[i + 1].clone(); i += 1; } i += 1; }
            let jobs = std::env::var("VMC_JOBS").ok().and_then(|s| s.parse().ok()).unwrap_or(16usize);
            let ctx = Ctx { prop: prop.clone(), tier: tier.clone(), seed, jobs };
            let n = n_items(&prop, &tier);
            if n == 0 { eprintln!("no check registered for {}", prop); std::process::exit(2); }
            let t0 = sys::now();
            if prop == "C15" {
                // the sysctl is global: two phases, the original value is restored on every exit path of this process
                let orig = c15::read_sysctl().unwrap_or_else(|| { eprintln!("MACHINERY ERROR: cannot read fs.protected_symlinks"); std::process::exit(2) });
                let lock = std::fs::File::create("/verif/.build/c15.lock").expect("lock file");
                unsafe { libc::flock(std::os::unix::io::AsRawFd::as_raw_fd(&lock), libc::LOCK_EX) };
                let mut total = ItemResult::default();
                for (val, range) in [(1u32, 0..5usize), (0u32, 5..10usize), (1u32, 10..12usize)] {
                    if let Err(e) = c15::write_sysctl(val) { let _ = c15::write_sysctl(orig); eprintln!("MACHINERY ERROR: {}", e); std::process::exit(2); }
                    let r = run_pool_range(&ctx, range, budget(&prop, &tier));
                    total.merge(r);
                }
                let _ = c15::write_sysctl(orig);
                let code = finish(&ctx, total, report(&prop, &tier), t0.elapsed().as_secs_f64());
                std::process::exit(code);
            }
            let r = run_pool(&ctx, n, budget(&prop, &tier));
            let code = finish(&ctx, r, report(&prop, &tier), t0.elapsed().as_secs_f64());
            std::process::exit(code);
        }
        "item" => {
            let (prop, tier, idx) = (args[2].clone(), args[3].clone(), args[4].parse::<usize>().unwrap());
            let r = match run_item(&prop, &tier, idx, None) {
                Ok(r) => r,
                Err(e) => ItemResult { machinery_error: Some(format!("item {}: {}", idx, e)), ..Default::default() },
            };
            println!("{}", serde_json::to_string(&r).unwrap());
        }
        "list" => {
            // vmc list <prop> <tier>: the sysmc items of a check (index, scenario, plan)
            for (i, it) in sysprops::items(&args[2], &args[3]).iter().enumerate() { println!("{} {} {:?} bundle={}", i, it.scen.name, it.plan, it.bundle.len()); }
        }
        "trace" => {
            // vmc trace <K|E> <warm|cold> '<op json>'
            let op: proto::Op = serde_json::from_str(&args[4]).expect("op json");
            if let Err(e) = sysprops::trace_cmd(&args[2], op, args[3] == "warm") { eprintln!("MACHINERY ERROR: {}", e); std::process::exit(2); }
        }
        "replay" => {
            let prop = args[2].clone();
            let doc: Value = serde_json::from_str(&std::fs::read_to_string(&args[3]).expect("read replay file")).expect("parse replay file");
            let tier = doc["tier"].as_str().unwrap_or("quick").to_string();
            let case = doc["case"].clone();
            let idx = case["item"].as_u64().unwrap_or(0) as usize;
            let c15_orig = if prop == "C15" { let o = c15::read_sysctl(); let _ = c15::write_sysctl(c15::sysctl_for(idx)); o } else { None };
            let rr = run_item(&prop, &tier, idx, Some(&case));
            if let Some(o) = c15_orig { let _ = c15::write_sysctl(o); }
            match rr {
                Err(e) => { eprintln!("MACHINERY ERROR: {}", e); std::process::exit(2); }
                Ok(r) => {
                    println!("replayed {} evaluations; outcomes {:?}", r.evaluations, r.outcomes);
                    for v in &r.violations { println!("  reproduced [{}]: {}", v.key, v.desc); }
                    if r.violations.is_empty() { println!("no violation on replay"); std::process::exit(0); }
                    println!("VIOLATION property={} replay={}", prop, args[3]);
                    std::process::exit(1);
                }
            }
        }
        _ => { eprintln!("unknown command"); std::process::exit(2); }
    }
}
