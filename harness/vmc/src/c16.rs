//! C16: loom exploration of the C error table (run by the separate loomcheck driver) + errno mapping of every error
//! kind the C API can produce (treemc) + safety violations produced by injected EAGAIN storms and attacker schedules (sysmc).

use crate::ev::*;
use crate::gen::*;
use crate::sys::*;
use crate::sysprops;
use crate::tree::*;
use crate::wk::Wk;
use proto::*;
use serde_json::{json, Value};

pub fn n_items(tier: &str) -> usize { 2 + sysprops::n_items("C16", tier) }

fn loom_item(tier: &str, only: Option<&Value>) -> MResult<ItemResult> {
    let mut res = ItemResult::default();
    let outp = format!("/verif/.build/loom-result-{}.json", std::process::id());
    let mut cmd = std::process::Command::new("/verif/.build/loom/release/driver");
    cmd.arg(tier).arg(&outp);
    if let Some(o) = only { if let Some(m) = o["model"].as_u64() { cmd.arg(m.to_string()); } }
    let st = cmd.status().map_err(|e| Mach(format!("cannot run loom driver: {}", e)))?;
    if !st.success() { return mach(format!("loom driver exited with {:?}", st)); }
    let doc: Value = serde_json::from_str(&std::fs::read_to_string(&outp).map_err(|e| Mach(e.to_string()))?).map_err(|e| Mach(e.to_string()))?;
    let _ = std::fs::remove_file(&outp);
    if let Some(c) = doc["crashes"].as_array() { if !c.is_empty() { return mach(format!("loom aborted {} models, first: {}", c.len(), c[0])); } }
    res.evaluations = doc["executions"].as_u64().unwrap_or(0);
    res.nontrivial = doc["distinct_histories"].as_u64().unwrap_or(0);
    res.states = doc["distinct_histories"].as_u64().unwrap_or(0);
    res.transitions = doc["executions"].as_u64().unwrap_or(0);
    res.traces_validated = res.evaluations;
    res.count("loom_models", doc["models"].as_u64().unwrap_or(0));
    res.max("loom_executions_per_model", doc["max_executions_per_model"].as_u64().unwrap_or(0));
    for h in doc["sample_histories"].as_array().cloned().unwrap_or_default() { res.sample(json!({"loom_history": h})); }
    for v in doc["violations"].as_array().cloned().unwrap_or_default() {
        res.violate(format!("loom:{}", v["script"].as_str().unwrap_or("")), format!("programs {} with RNG script '{}' (preemption bound {}): history [{}] - {}", v["programs"], v["script"], v["preemption_bound"], v["history"].as_str().unwrap_or(""), v["why"].as_str().unwrap_or("")),
            json!({"engine": "loom", "item": 0, "model": v["model"], "programs": v["programs"], "script": v["script"], "history": v["history"]}));
    }
    res.outcome(format!("loom:{} distinct histories", res.nontrivial));
    Ok(res)
}

/// every error kind the C API can produce without an adversary, with the errno the statement demands
fn errno_item(only: Option<&Value>) -> MResult<ItemResult> {
    let mut res = ItemResult::default();
    enter_jail()?;
    crate::lookup::build_decoys()?;
    let root_out = out(ROOT_IN);
    let c = |n: &str| Op::new(n).capi().root(ROOT_IN);
    let cases: Vec<(&str, Op, i32)> = vec![
        ("invalid-argument(negative fd)", c("resolve").path("a").num(-1), libc::EINVAL),
        ("invalid-argument(trailing slash)", c("mkdir").path("a/").mode(0o755), libc::EINVAL),
        ("invalid-argument(creation flags on open)", c("open_subpath").path("f").flags(O_CREAT | O_WRONLY), libc::EINVAL),
        ("invalid-argument(reopen O_CREAT)", Op::new("reopen").capi().handle("h").flags(O_CREAT | O_WRONLY), libc::EINVAL),
        ("invalid-argument(bad base)", Op::new("proc_open").capi().base("7").path("status").flags(O_RDONLY), libc::EINVAL),
        ("invalid-argument(mkdir_all mode)", c("mkdir_all").path("x").mode(0o10755), libc::EINVAL),
        ("syscall-errno(ENOENT)", c("resolve").path("nonexistent"), libc::ENOENT),
        ("syscall-errno(ENOTDIR)", c("resolve").path("f/x"), libc::ENOTDIR),
        ("syscall-errno(ELOOP)", c("resolve").path("loop"), libc::ELOOP),
        ("syscall-errno(ELOOP nofollow open)", c("open_subpath").path("l").flags(O_RDONLY | O_NOFOLLOW), libc::ELOOP),
        ("syscall-errno(EEXIST)", c("mkdir").path("d").mode(0o755), libc::EEXIST),
        ("syscall-errno(ENOTEMPTY)", c("remove_dir").path("d"), libc::ENOTEMPTY),
        ("syscall-errno(EISDIR)", c("remove_file").path("d"), libc::EISDIR),
        ("syscall-errno(ENOTDIR rmdir)", c("remove_dir").path("f"), libc::ENOTDIR),
        ("syscall-errno(EXDEV procfs escape)", Op::new("proc_open").capi().base("self").path("../cmdline").flags(O_RDONLY), libc::EXDEV),
        ("syscall-errno(ELOOP magic-link component)", Op::new("proc_open").capi().base("self").path("root/etc").flags(O_RDONLY), libc::ELOOP),
        ("syscall-errno(ENOENT open_root)", { let mut o = Op::new("open_root").capi(); o.path = Some("/nonexistent".into()); o }, libc::ENOENT),
        ("not-implemented(ENOSYS)", c("mknod").path("sock").mode(libc::S_IFSOCK | 0o644), libc::ENOSYS),
        ("syscall-errno(ENAMETOOLONG)", c("resolve").path(&"n".repeat(300)), libc::ENAMETOOLONG),
    ];
    for wname in ["K", "E"] {
        let mut w = if wname == "K" { Wk::kernel()? } else { Wk::emulated()? };
        for (ci, (what, op, want)) in cases.iter().enumerate() {
            if let Some(o) = only { if o["case_index"].as_u64() != Some(ci as u64) || o["worker"].as_str() != Some(wname) { continue; } }
            clear_dir(&root_out)?;
            TreeSpec::default().dir("a").file("f").dir("d").file("d/x").link("l", "f").link("loop", "loop").build(&root_out)?;
            w.one(Op::new("resolve").root(ROOT_IN).path("f").keep("h"))?;
            let obs = w.one(op.clone())?;
            w.one(Op::new("close_handle").handle("h"))?;
            res.evaluations += 1;
            res.nontrivial += 1;
            res.transitions += 1;
            let desc = format!("{} {} [{}]", wname, op.brief(), what);
            let replay = json!({"engine": "errno", "item": 1, "case_index": ci, "worker": wname, "op": op});
            let key = what.split('(').next().unwrap_or("").to_string();
            res.outcome(format!("{}:{}", what, obs.cerr.as_ref().map(|e| errname(e.errno as i32)).unwrap_or_else(|| "ok".into())));
            if let Some(p) = &obs.panic { res.violate(format!("panic:{}", key), format!("{}: panic {}", desc, p), replay); continue; }
            let ret = obs.ret.unwrap_or(0);
            if obs.ok { res.violate(format!("no-error:{}", what), format!("{}: succeeded, expected {}", desc, errname(*want)), replay); continue; }
            if ret >= -4095 { res.violate(format!("errno-like-id:{}", key), format!("{}: returned {} which is not below -4095", desc, ret), replay); continue; }
            match &obs.cerr {
                None => res.violate(format!("errorinfo-null:{}", key), format!("{}: pathrs_errorinfo({}) returned NULL for a fresh id", desc, ret), replay),
                Some(ce) => {
                    if ce.errno as i32 != *want { res.violate(format!("errno:{}:{}", what, errname(ce.errno as i32)), format!("{}: errorinfo errno {} ({}), expected {}", desc, errname(ce.errno as i32), ce.desc, errname(*want)), replay); }
                    else if !ce.second_null { res.violate(format!("delivered-twice:{}", key), format!("{}: second pathrs_errorinfo returned the error again", desc), replay); }
                    else if ce.desc.is_empty() { res.violate(format!("no-description:{}", key), format!("{}: empty description", desc), replay); }
                }
            }
            if res.samples.len() < 2 { res.sample(json!({"case": desc, "id": ret, "errorinfo": obs.cerr})); }
        }
    }
    // "errno of the failing system call" when that errno is ENOSYS: kernels / seccomp profiles without symlinkat, mknodat, linkat
    for wname in ["K-nosys", "E-nosys"] {
        let mut deny: Vec<String> = vec!["symlinkat".into(), "mknodat".into(), "linkat".into()];
        if wname.starts_with('E') { deny.push("openat2".into()); }
        let mut w = Wk::spawn(wname, &Setup { jail: JAIL.into(), deny, ..Default::default() })?;
        let c = |n: &str| Op::new(n).capi().root(ROOT_IN);
        let cases2: Vec<(&str, Op)> = vec![
            ("syscall-errno(ENOSYS symlinkat)", c("symlink").path("newl").path2("f")),
            ("syscall-errno(ENOSYS mknodat)", c("mknod").path("newp").mode(libc::S_IFIFO | 0o644)),
            ("syscall-errno(ENOSYS linkat)", c("hardlink").path("newh").path2("f")),
        ];
        for (ci, (what, op)) in cases2.iter().enumerate() {
            if let Some(o) = only { if o["case_index"].as_u64() != Some(100 + ci as u64) || o["worker"].as_str() != Some(wname) { continue; } }
            clear_dir(&root_out)?;
            TreeSpec::default().dir("a").file("f").build(&root_out)?;
            let obs = w.one(op.clone())?;
            res.evaluations += 1; res.nontrivial += 1; res.transitions += 1;
            let desc = format!("{} {} [{}]", wname, op.brief(), what);
            let replay = json!({"engine": "errno", "item": 1, "case_index": 100 + ci, "worker": wname, "op": op});
            res.outcome(format!("{}:{}", what, obs.cerr.as_ref().map(|e| errname(e.errno as i32)).unwrap_or_else(|| "ok".into())));
            if let Some(p) = &obs.panic { res.violate("panic:nosys".to_string(), format!("{}: panic {}", desc, p), replay); continue; }
            if obs.ok { res.violate(format!("no-error:{}", what), format!("{}: succeeded although the system call is unavailable", desc), replay); continue; }
            match &obs.cerr {
                None => res.violate("errorinfo-null:nosys".to_string(), format!("{}: pathrs_errorinfo returned NULL for a fresh id", desc), replay),
                Some(ce) => if ce.errno as i32 != libc::ENOSYS { res.violate(format!("errno:{}:{}", what, errname(ce.errno as i32)), format!("{}: errorinfo errno {} ({}), expected ENOSYS - the errno of the failing system call", desc, errname(ce.errno as i32), ce.desc), replay); },
            }
        }
    }
    res.states = res.evaluations;
    res.traces_validated = res.evaluations;
    Ok(res)
}

pub fn run_item(tier: &str, idx: usize, only: Option<&Value>) -> MResult<ItemResult> {
    let engine = only.and_then(|o| o["engine"].as_str().map(|s| s.to_string()));
    match (engine.as_deref(), idx) {
        (Some("loom"), _) | (None, 0) => loom_item(tier, only),
        (Some("errno"), _) | (None, 1) => errno_item(only),
        (Some("sysmc"), i) => sysprops::run_item("C16", tier, i, only),
        (_, i) => sysprops::run_item("C16", tier, i - 2, only),
    }
}

pub fn report(tier: &str) -> Report {
    let th = tier == "thorough";
    Report {
        level: "model_checking",
        rule: format!("loom over the unmodified sources (std/once_cell/rand re-targeted by dependency renaming): all ordered pairs of {} thread programs{} of <=3 operations over {{fail(EINVAL), fail(ENOENT), fail(ENOSYS), errorinfo(own id), errorinfo(same id again), errorinfo(another thread's published id)}} x 4 scripted RNG word sequences (distinct / colliding while live / re-issued after consumption / both ends of the id range), every interleaving with <= {} preemptions; every execution's call/return history must be linearizable against a plain map (brute force); states = distinct canonical histories, transitions = executions. Plus: the errno of every error kind through the C API on both backends (19 kinds x 2), and safety violations produced by 16 injected EAGAINs / by every single attacker mutation during C-API lookups must map to EXDEV with an id below -4095 that is consumed exactly once.",
            if th { 13 } else { 9 }, if th { " and all triples of the short programs on 3 threads (bound 2)" } else { "" }, if th { 3 } else { 2 }),
        assumptions: vec![
            "loom's model of Mutex/lazy initialisation (sequentially consistent scheduling points at synchronisation operations); the table's data is only touched under the lock (forbid(unsafe_code) outside capi, the map itself lives inside the Mutex)".into(),
            "the scripted RNG replaces rand::thread_rng(): id collisions are forced instead of waiting 2^31 draws".into(),
        ],
        exhaustive: true,
        extra: json!({}),
    }
}
