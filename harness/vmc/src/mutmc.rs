//! treemc for mutating operations: C04 (K == E), C12 (mkdir_all, sequential), C13 (remove_all, sequential), C14 (single-entry ops).
//! Every case runs on a freshly built tree three times: kernel-backend worker, emulated-backend worker, and an oracle twin on which
//! the harness itself resolves the parent with openat2(RESOLVE_IN_ROOT) and issues the one raw *at syscall (or rm -r / mkdir -p).

use crate::ev::*;
use crate::gen::*;
use crate::lookup::build_decoys;
use crate::sys::*;
use crate::tree::*;
use crate::wk::Wk;
use proto::*;
use serde_json::{json, Value};
use std::collections::BTreeMap;
use std::os::unix::io::{AsRawFd, OwnedFd};

fn mut_paths(thorough: bool) -> Vec<String> {
    let sigma = ["a", "b", "x", ".", ".."];
    let mut v: Vec<String> = Vec::new();
    for a in sigma { v.push(a.into()); v.push(format!("/{}", a)); v.push(format!("{}/", a)); }
    for a in sigma { for b in sigma { v.push(format!("{}/{}", a, b)); if thorough { v.push(format!("{}/{}/", a, b)); v.push(format!("/{}/{}", a, b)); } } }
    if thorough { for a in ["a", "b", ".."] { for b in ["a", "x", ".."] { for c in ["a", "x", ".", ".."] { v.push(format!("{}/{}/{}", a, b, c)); } } } }
    for s in ["", "/", "//", "a//x", "a/./x", "x/y", "a/x/y", "b/x/y/z", "a/x/", "a/a/x", "b/../x", "a/../../x", "x/../y", "x/y/..", "a/a/..", "./x"] { v.push(s.into()); }
    // names that are not valid UTF-8 (a Latin-1 byte, a lone continuation byte, 0xff); see proto::dec_path for the transport
    for s in ["caf\u{E0E9}", "a/x\u{E080}", "a/x\u{E081}/y", "n\u{E0FF}/m\u{E0C3}"] { v.push(s.into()); }
    v.sort(); v.dedup();
    v
}

fn mut_trees(prop: &str, thorough: bool) -> Vec<TreeSpec> {
    let all = trees(false);
    // mkdir_all / remove_all are cheap (few operations per path): they get every tree already in the quick tier
    let every = if thorough || prop == "C12" || prop == "C13" { 1 } else { 3 };
    let mut v: Vec<TreeSpec> = all.into_iter().enumerate().filter(|(i, _)| i % every == 0).map(|(_, t)| t).collect();
    // deep and wide subtrees with links to siblings, parents, the decoys outside, loops, fifos and hard links
    v.push(TreeSpec::default().dir("a").dir("a/a").dir("a/a/a").dir("a/a/a/a").file("a/a/a/a/f").link("a/a/l-sib", "../b").link("a/a/a/l-up", "../../..").link("a/l-out", "/../../../secret")
        .link("a/a/l-out2", "../../../../outer/secret").link("a/a/a/loop", "loop").fifo("a/a/p").dir("a/b").file("a/b/f").add("a/b/hl", Kind::Hard("a/b/f".into())).dir("a/x").link("a/x/l-dir", "../../b").dir("b").file("b/keep").file("x"));
    v.push(TreeSpec::default().dir("a").link("a/a", "..").link("a/b", "/").link("a/x", "../b").dir("b").dir("b/a").file("b/a/keep").link("x", "a"));
    // a few deeper / special trees every tier
    v.push(TreeSpec::default().dir("a").dir("a/a").file("a/a/f").link("a/l", "a").link("b", "a/a").file("x"));
    v.push(TreeSpec::default().add("a", Kind::DirMode(0o2755)).dir("a/a").link("b", "/a"));
    v.push(TreeSpec::default().dir("a").file("a/a").add("b", Kind::Hard("a/a".into())).link("x", "../../../secret"));
    v.push(TreeSpec::default().dir("a").dir("a/a").dir("a/a/a").link("a/a/up", "../..").fifo("b"));
    v
}

pub struct MScope { pub trees: Vec<TreeSpec>, pub paths: Vec<String>, pub thorough: bool, pub chunk: usize }

pub fn scope(prop: &str, tier: &str) -> MScope {
    let th = tier == "thorough";
    MScope { trees: mut_trees(prop, th), paths: mut_paths(th), thorough: th, chunk: if th { 8 } else { 6 } }
}

fn base_items(prop: &str, tier: &str) -> usize { let s = scope(prop, tier); (s.trees.len() + s.chunk - 1) / s.chunk }
/// C14: a second pass over the same trees for the rename operations on a kernel without renameat2(2) (seccomp ENOSYS)
pub fn n_items(prop: &str, tier: &str) -> usize { plain_items(prop, tier) + CALLERS.len() }
fn plain_items(prop: &str, tier: &str) -> usize { let n = base_items(prop, tier); if prop == "C14" { 2 * n } else { n } }

/// Callers other than root for the last work items: (name, uid, every capability dropped)
const CALLERS: [(&str, u32, bool); 2] = [("uid1000", 1000, false), ("root-nocaps", 0, true)];

/// Run `f` in a forked child that has taken on the caller's identity (the reference effect must be produced by the same
/// user as the library call it is compared with) and hand its result back.
fn as_caller<T: serde::Serialize + serde::de::DeserializeOwned>(uid: u32, drop_caps: bool, f: impl FnOnce() -> T) -> MResult<T> {
    let mut fds = [0i32; 2];
    if unsafe { libc::pipe2(fds.as_mut_ptr(), libc::O_CLOEXEC) } != 0 { return mach("pipe2"); }
    let pid = unsafe { libc::fork() };
    if pid < 0 { return mach("fork"); }
    if pid == 0 {
        unsafe {
            libc::close(fds[0]);
            if uid != 0 {
                if libc::setgroups(0, std::ptr::null()) != 0 || libc::setresgid(uid, uid, uid) != 0 || libc::setresuid(uid, uid, uid) != 0 { libc::_exit(3); }
            }
            if drop_caps {
                #[repr(C)] struct Hdr { version: u32, pid: i32 }
                #[repr(C)] struct Data { effective: u32, permitted: u32, inheritable: u32 }
                let hdr = Hdr { version: 0x20080522, pid: 0 };
                let data = [Data { effective: 0, permitted: 0, inheritable: 0 }, Data { effective: 0, permitted: 0, inheritable: 0 }];
                for cap in 0..64 { libc::prctl(libc::PR_CAPBSET_DROP, cap, 0, 0, 0); }
                if libc::syscall(libc::SYS_capset, &hdr as *const Hdr, data.as_ptr()) != 0 { libc::_exit(4); }
            }
            libc::prctl(libc::PR_SET_DUMPABLE, 1, 0, 0, 0);
        }
        let r = f();
        let js = serde_json::to_vec(&r).unwrap_or_default();
        unsafe { libc::write(fds[1], js.as_ptr() as *const libc::c_void, js.len()); libc::_exit(0); }
    }
    unsafe { libc::close(fds[1]) };
    let mut buf = Vec::new();
    let mut chunk = [0u8; 4096];
    loop {
        let n = unsafe { libc::read(fds[0], chunk.as_mut_ptr() as *mut libc::c_void, chunk.len()) };
        if n <= 0 { break; }
        buf.extend_from_slice(&chunk[..n as usize]);
    }
    unsafe { libc::close(fds[0]) };
    let mut st = 0;
    unsafe { libc::waitpid(pid, &mut st, 0) };
    if !libc::WIFEXITED(st) || libc::WEXITSTATUS(st) != 0 { return mach(format!("oracle child ended with status {:#x}", st)); }
    serde_json::from_slice(&buf).map_err(|e| Mach(format!("oracle child answer: {}", e)))
}

/// The tree of the caller passes: entries of the caller (uid 1000), of root, restrictive modes, a world-writable and a sticky
/// directory. (path, kind, owner, mode)
fn caller_tree() -> Vec<(&'static str, &'static str, u32, u32)> {
    vec![
        ("a", "d", 1000, 0o755), ("a/f", "f", 1000, 0o644), ("a/sub", "d", 1000, 0o755), ("a/sub/g", "f", 1000, 0o644),
        ("ro", "d", 1000, 0o555), ("ro/f", "f", 1000, 0o644), ("ro/sub", "d", 1000, 0o755), ("ro/sub/g", "f", 1000, 0o644),
        ("wo", "d", 1000, 0o300), ("wo/f", "f", 1000, 0o644), ("wo/sub", "d", 1000, 0o755),
        ("r", "d", 0, 0o755), ("r/f", "f", 0, 0o644), ("r/w", "d", 0, 0o777), ("r/w/f", "f", 0, 0o644), ("r/w/mine", "f", 1000, 0o644), ("r/w/d", "d", 0, 0o755), ("r/w/d/g", "f", 0, 0o644),
        ("st", "d", 0, 0o1777), ("st/f", "f", 0, 0o644), ("st/mine", "f", 1000, 0o644), ("st/d", "d", 0, 0o755), ("st/myd", "d", 1000, 0o755), ("st/myd/g", "f", 1000, 0o644),
        ("l", "l:ro", 1000, 0), ("lw", "l:r/w", 1000, 0), ("b", "f", 1000, 0o644),
    ]
}

fn caller_paths() -> Vec<&'static str> {
    vec!["a/new", "a/f", "a/sub", "a/new/deep", "ro/new", "ro/f", "ro/sub", "ro/sub/g", "ro/sub/new/x", "ro/new/y", "wo/new", "wo/f", "wo/sub", "wo/new/y", "r/new", "r/f", "r/w/new", "r/w/f", "r/w/mine", "r/w/d", "r/w", "r/w/new/z",
         "st/f", "st/mine", "st/new/z", "st/d", "st/myd", "l/new", "l/sub/new", "lw/new", "lw/f", "a", "ro", "wo", "st", "r", "b", "x"]
}

fn rebuild_caller_tree() -> MResult<()> {
    let root_out = out(ROOT_IN);
    // restrictive modes of the previous round must not stop the clean-up (root with CAP_DAC_OVERRIDE: they do not)
    clear_dir(&root_out)?;
    let ents = caller_tree();
    for (p, k, _, _) in &ents {
        let full = cs(&format!("{}/{}", root_out, p));
        let r = unsafe { match *k { "d" => libc::mkdir(full.as_ptr(), 0o755), "f" => { let fd = libc::open(full.as_ptr(), libc::O_CREAT | libc::O_WRONLY | libc::O_CLOEXEC, 0o644); if fd >= 0 { libc::close(fd); 0 } else { -1 } }, l => { let t = cs(&l[2..]); libc::symlink(t.as_ptr(), full.as_ptr()) } } };
        if r != 0 { return mach(format!("build {}: errno {}", p, errno())); }
    }
    for (p, k, owner, mode) in ents.iter().rev() {
        let full = cs(&format!("{}/{}", root_out, p));
        unsafe { libc::lchown(full.as_ptr(), *owner, *owner); if !k.starts_with("l:") { libc::chmod(full.as_ptr(), *mode); } }
    }
    Ok(())
}

/// One caller pass: every operation of the property on the caller tree, performed by workers with the caller's identity on both
/// backends; reference effect produced by a forked child with the same identity.
fn run_caller_item(prop: &str, tier: &str, item_idx: usize, which: usize, only: Option<&Value>) -> MResult<ItemResult> {
    let (who, uid, drop_caps) = CALLERS[which];
    let th = tier == "thorough";
    let mut res = ItemResult::default();
    enter_jail()?;
    build_decoys()?;
    let umask = 0o022u32;
    let setup = |deny: Vec<String>| Setup { jail: JAIL.into(), deny, uid, gid: uid, drop_caps, umask: Some(umask), ..Default::default() };
    let (kn, en) = (format!("K-{}", who), format!("E-{}", who));
    let mut k = Wk::spawn(&kn, &setup(vec![]))?;
    let mut e = Wk::spawn(&en, &setup(vec!["openat2".into()]))?;
    k.timeout_ms = 60_000; e.timeout_ms = 60_000;
    let root_out = out(ROOT_IN);
    let rootfd = open_path(&root_out)?;
    let root_id = lstat(&root_out).map(|st| (st.dev, st.ino)).ok_or_else(|| Mach("root directory missing at item start".into()))?;
    let tree_text = caller_tree().iter().map(|(p, k, o, m)| format!("{}{} u{} {:o}", p, if *k == "d" { "/" } else if *k == "f" { "" } else { &k[1..] }, o, m)).collect::<Vec<_>>().join(" ");
    let mut states: std::collections::BTreeSet<u64> = Default::default();
    rebuild_caller_tree()?;
    let c0 = canon(&snap_all()?);
    for path in caller_paths() {
        for op in ops_for(prop, path, th) {
            if let Some(o) = only { let want: Op = serde_json::from_value(o["op"].clone()).map_err(|e| Mach(format!("bad replay op: {}", e)))?; if want != op { continue; } }
            let replay = json!({"engine": "mutmc", "item": item_idx, "tree_idx": 999_200 + which, "tree": tree_text, "op": op, "caller": who});
            let desc0 = format!("caller {} on tree [{}] {}", who, tree_text, op.brief());
            let mut outs: Vec<(String, Obs, Snap, Option<String>)> = Vec::new();
            let mut undecided = false;
            for (name, wk) in [(&kn, &mut k), (&en, &mut e)] {
                rebuild_caller_tree()?;
                let mut o = wk.one(op.clone().keep("r"))?;
                let mut tries = 0;
                while !o.ok && matches!(o.errno, Some(libc::EXDEV) | Some(libc::EAGAIN)) && tries < 30 { tries += 1; wk.one(Op::new("close_handle").handle("r"))?; rebuild_caller_tree()?; o = wk.one(op.clone().keep("r"))?; }
                if !o.ok && o.msg.as_deref().map(|m| m.contains("racing filesystem changes caused openat2 to abort")).unwrap_or(false) { res.count("transient_undecided", 1); undecided = true; wk.one(Op::new("close_handle").handle("r"))?; break; }
                if let Some(h) = &o.harness_error { return mach(format!("worker {}: {}", name, h)); }
                let sn = snap_all()?;
                let alive = lstat(&root_out).map(|st| (st.dev, st.ino) == root_id).unwrap_or(false);
                if !alive { res.violate(format!("{}:{}:root-destroyed", name, op.name), format!("{} on {}: the root directory itself no longer exists afterwards", desc0, name), replay.clone()); return Ok(res); }
                let hp = id_path(&sn, &o.fd);
                wk.one(Op::new("close_handle").handle("r"))?;
                outs.push((name.clone(), o, sn, hp));
            }
            if undecided { continue; }
            let (ck, ce) = (canon(&outs[0].2), canon(&outs[1].2));
            res.evaluations += 2; res.transitions += 2;
            states.insert(hash64(&format!("{:?}", ck))); states.insert(hash64(&format!("{:?}", ce)));
            res.outcome(format!("{}:{}:{}", who, op.name, errclass(&outs[0].1)));
            if ck != c0 || !outs[0].1.ok { res.nontrivial += 1; }
            for (bk, o, _, _) in &outs { if let Some(p) = &o.panic { res.violate(format!("{}:panic:{}", bk, op.name), format!("{} on {}: panic {}", desc0, bk, p), replay.clone()); } }
            if prop == "C04" {
                let (ok_, oe) = (&outs[0].1, &outs[1].1);
                if errclass(ok_) != errclass(oe) {
                    res.violate(format!("mut:{}:caller-{}:K={} E={}", op.name, who, errclass(ok_), errclass(oe)), format!("{}: kernel backend {} ({}), emulated backend {} ({})", desc0, errclass(ok_), ok_.msg.clone().unwrap_or_default(), errclass(oe), oe.msg.clone().unwrap_or_default()), replay.clone());
                } else if ck != ce {
                    res.violate(format!("mut:{}:caller-{}:tree-differs", op.name, who), format!("{}: resulting trees differ between backends: {}", desc0, canon_diff(&ck, &ce)), replay.clone());
                } else if ok_.ok && (outs[0].3 != outs[1].3 || ok_.fd.as_ref().map(|f| (f.getfl & crate::lookup::GETFL_MASK, f.cloexec)) != oe.fd.as_ref().map(|f| (f.getfl & crate::lookup::GETFL_MASK, f.cloexec))) {
                    res.violate(format!("mut:{}:caller-{}:handle-differs", op.name, who), format!("{}: returned descriptors differ: K {:?} vs E {:?}", desc0, outs[0].3, outs[1].3), replay.clone());
                }
                continue;
            }
            // reference effect, produced by the same user
            rebuild_caller_tree()?;
            let rfd = rootfd.as_raw_fd();
            let (exp, want_id): (Expect, Option<(u64, u64)>) = match prop {
                "C14" => (as_caller(uid, drop_caps, || oracle_single(rfd, &op))?, None),
                "C13" => (as_caller(uid, drop_caps, || oracle_remove_all(rfd, &op))?, None),
                _ => as_caller(uid, drop_caps, || oracle_mkdir_all(rfd, &op, umask))?,
            };
            let so = snap_all()?;
            let co = canon(&so);
            let want_path = want_id.and_then(|id| so.iter().find(|(_, n)| (n.dev, n.ino) == id).map(|(p, _)| p.clone()));
            res.traces_validated += 1;
            // C12/C13 promise effects for calls that succeed and confinement for calls that fail; they do not promise that the call
            // succeeds wherever `mkdir -p` / `rm -r` would (the library needs read permission on directories it re-opens): a failing
            // call is judged against the widest reference effect (the same operation done by root) - nothing outside it may change
            if prop != "C14" {
                rebuild_caller_tree()?;
                let _ = match prop { "C13" => oracle_remove_all(rfd, &op), _ => oracle_mkdir_all(rfd, &op, umask).0 };
                let cr = canon(&snap_all()?);
                let mut all_failed_ok = true;
                for (bk, o, sn, hp) in &outs {
                    if o.panic.is_some() { continue; }
                    let c = canon(sn);
                    if o.ok {
                        if exp != Expect::Errno(0) { res.violate(format!("{}:{}:caller:outcome:want={:?}:got=ok", bk, op.name, exp), format!("{} on {}: the statement's reference (same user) gives {:?}, libpathrs succeeds", desc0, bk, exp), replay.clone()); continue; }
                        if c != co { res.violate(format!("{}:{}:caller:frame", bk, op.name), format!("{} on {}: resulting tree differs from the reference effect: {}", desc0, bk, canon_diff(&co, &c)), replay.clone()); continue; }
                        if prop == "C12" && *hp != want_path { res.violate(format!("{}:mkdir_all:caller:handle", bk), format!("{} on {}: returned handle is {:?}, the path resolves to {:?}", desc0, bk, hp, want_path), replay.clone()); }
                    } else {
                        if exp == Expect::Errno(0) { res.count("stricter_than_reference", 1); }
                        // every difference from the initial tree must also be a difference the widest reference effect makes
                        let bad: Vec<String> = c.iter().filter(|(k, v)| match c0.get(*k) { Some(v0) => v0 != *v && cr.get(*k) != Some(*v), None => !cr.contains_key(*k) }).map(|(k, _)| format!("~{}", k)).chain(c0.keys().filter(|k| !c.contains_key(*k) && cr.contains_key(*k)).map(|k| format!("-{}", k))).take(5).collect();
                        if !bad.is_empty() { all_failed_ok = false; res.violate(format!("{}:{}:caller:failed-call-collateral", bk, op.name), format!("{} on {} ({}): the failed call changed entries that even the complete reference effect leaves alone: {}", desc0, bk, errclass(o), bad.join(" ")), replay.clone()); }
                    }
                }
                let _ = all_failed_ok;
                continue;
            }
            for (bk, o, sn, hp) in &outs {
                if o.panic.is_some() { continue; }
                let c = canon(sn);
                let got = if o.ok { 0 } else { o.errno.unwrap_or(-1) };
                let mismatch = match &exp {
                    Expect::Errno(w) => *w != got,
                    Expect::Fails => o.ok,
                    Expect::InvalidArgument => o.ok || !(o.kind.as_deref() == Some("InvalidArgument") || o.errno == Some(libc::EINVAL)),
                };
                if mismatch { res.violate(format!("{}:{}:caller:outcome:want={:?}:got={}", bk, op.name, exp, errclass(o)), format!("{} on {}: the statement's reference (same user) gives {:?}, libpathrs gives {} ({})", desc0, bk, exp, errclass(o), o.msg.clone().unwrap_or_default()), replay.clone()); continue; }
                if c != co { res.violate(format!("{}:{}:caller:frame", bk, op.name), format!("{} on {} ({}): resulting tree differs from the reference effect: {}", desc0, bk, errclass(o), canon_diff(&co, &c)), replay.clone()); continue; }
                if prop == "C12" && o.ok && *hp != want_path { res.violate(format!("{}:mkdir_all:caller:handle", bk), format!("{} on {}: returned handle is {:?}, the path resolves to {:?}", desc0, bk, hp, want_path), replay.clone()); }
            }
        }
    }
    res.count("trees", 1);
    res.states = states.len() as u64;
    Ok(res)
}

/// operations of one property for one path
fn ops_for(prop: &str, path: &str, th: bool) -> Vec<Op> {
    let r = |n: &str| Op::new(n).root(ROOT_IN).path(path);
    let mut v: Vec<Op> = Vec::new();
    let single = |v: &mut Vec<Op>| {
        v.push(r("create").itype("file").mode(0o644));
        v.push(r("create").itype("dir").mode(0o750));
        v.push(r("create").itype("fifo").mode(0o600));
        // set-id and sticky bits are part of the mode the *at call gets
        v.push(r("create").itype("file").mode(0o4750));
        v.push(r("create").itype("dir").mode(0o3775));
        v.push(Op::new("mknod").capi().root(ROOT_IN).path(path).mode(libc::S_IFREG | 0o6755));
        v.push(Op::new("mkdir").capi().root(ROOT_IN).path(path).mode(0o1777));
        // Permissions values that carry file-type bits (what fs::metadata().permissions() yields): only the permission bits count
        v.push(r("create").itype("file").mode(libc::S_IFSOCK | 0o640));
        v.push(r("create").itype("dir").mode(libc::S_IFREG | 0o711));
        v.push(r("create").itype("fifo").mode(libc::S_IFCHR | 0o600));
        v.push(r("create").itype("symlink").path2("../x"));
        v.push(r("create").itype("hardlink").path2("a/a"));
        v.push(r("create").itype("hardlink").path2("b"));
        // O_NONBLOCK everywhere: the name may be a FIFO, and nothing may block
        v.push(r("create_file").flags(O_WRONLY | O_NONBLOCK).mode(0o640));
        v.push(r("create_file").flags(O_RDWR | O_EXCL | O_NONBLOCK).mode(0o600));
        // O_PATH makes the kernel ignore O_CREAT: a pure (non-following) lookup of the final name through the creation entry point
        v.push(r("create_file").flags(O_PATH).mode(0o600));
        v.push(r("remove_file"));
        v.push(r("remove_dir"));
        v.push(r("rename").path2("x").flags(0));
        v.push(r("rename").path2("a/x").flags(0));
        v.push(Op::new("rename").root(ROOT_IN).path("a").path2(path).flags(0));
        v.push(r("rename").path2("b").flags(libc::RENAME_NOREPLACE as i64));
        v.push(r("rename").path2("b").flags(libc::RENAME_EXCHANGE as i64));
        v.push(r("create").itype("dir").mode(0o750).rflags(RESOLVE_NO_SYMLINKS));
        v.push(r("remove_file").rflags(RESOLVE_NO_SYMLINKS));
        if th {
            v.push(r("create").itype("chr").mode(libc::S_IFBLK | 0o600).dev(0x0103));
            v.push(r("rename").path2("x").flags(0).rflags(RESOLVE_NO_SYMLINKS));
            v.push(r("create_file").flags(O_WRONLY | O_NONBLOCK).mode(libc::S_IFDIR | 0o640).rflags(RESOLVE_NO_SYMLINKS));
            v.push(r("create").itype("chr").mode(0o600).dev(0x0103));
            v.push(r("create").itype("blk").mode(0o600).dev(0x0700));
            v.push(r("create").itype("symlink").path2("/../../../secret"));
            v.push(r("create").itype("hardlink").path2("a/../b"));
            v.push(r("create_file").flags(O_WRONLY | O_TRUNC | O_NONBLOCK).mode(0o644));
            v.push(r("create_file").flags(O_RDONLY | O_DIRECTORY | O_NONBLOCK).mode(0o644));
            v.push(r("create_file").flags(O_PATH | O_DIRECTORY).mode(0o644));
            v.push(r("create_file").flags(O_PATH | O_EXCL).mode(0o644));
            v.push(r("rename").path2("a/a").flags(0));
            v.push(Op::new("rename").root(ROOT_IN).path("b").path2(path).flags(libc::RENAME_EXCHANGE as i64));
            v.push(r("rename").path2("x").flags(libc::RENAME_WHITEOUT as i64));
            // C entry points with raw S_IFMT values
            for m in [libc::S_IFREG | 0o644, libc::S_IFDIR | 0o755, libc::S_IFIFO | 0o600] { v.push(Op::new("mknod").capi().root(ROOT_IN).path(path).mode(m)); }
            v.push(Op::new("mkdir").capi().root(ROOT_IN).path(path).mode(0o711));
            v.push(Op::new("symlink").capi().root(ROOT_IN).path(path).path2("tgt"));
            v.push(Op::new("hardlink").capi().root(ROOT_IN).path(path).path2("b"));
            v.push(Op::new("remove_file").capi().root(ROOT_IN).path(path));
            v.push(Op::new("remove_dir").capi().root(ROOT_IN).path(path));
            v.push(Op::new("create_file").capi().root(ROOT_IN).path(path).flags(O_WRONLY | O_NONBLOCK).mode(0o640));
            v.push(Op::new("rename").capi().root(ROOT_IN).path(path).path2("x").flags(0));
        }
    };
    let mk = |v: &mut Vec<Op>| {
        // 0555: no owner-write - every created directory, not only the last, must get exactly the requested mode
        for m in [0o755u32, 0o700, 0o1777, 0o555] { v.push(r("mkdir_all").mode(m)); }
        v.push(r("mkdir_all").mode(0o755).rflags(RESOLVE_NO_SYMLINKS));
        if th { for m in [0o000u32, 0o2755, 0o4755, 0o10755, 0o777] { v.push(r("mkdir_all").mode(m)); } v.push(Op::new("mkdir_all").capi().root(ROOT_IN).path(path).mode(0o750)); }
    };
    let rm = |v: &mut Vec<Op>| { v.push(r("remove_all")); v.push(r("remove_all").rflags(RESOLVE_NO_SYMLINKS)); if th { v.push(Op::new("remove_all").capi().root(ROOT_IN).path(path)); } };
    match prop {
        "C14" => single(&mut v),
        "C12" => mk(&mut v),
        "C13" => rm(&mut v),
        "C04" => { single(&mut v); v.truncate(if th { 25 } else { 15 }); v.push(r("mkdir_all").mode(0o755)); v.push(r("remove_all")); }
        _ => {}
    }
    v
}

fn rebuild(tree: &TreeSpec) -> MResult<()> {
    let root_out = out(ROOT_IN);
    clear_dir(&root_out)?;
    // the root itself may have been chmod'ed / replaced by a buggy library: make sure it is a plain directory
    tree.build(&root_out)
}

/// oracle side: what the statement says should happen, executed by the harness with raw syscalls on the rebuilt tree
#[derive(Debug, Clone, PartialEq, Eq, serde::Serialize, serde::Deserialize)]
enum Expect {
    /// errno (0 = success); None = the statement does not fix the errno, only that it fails
    Errno(i32),
    Fails,
    InvalidArgument,
}

fn split_final(path: &str) -> Option<(String, String)> {
    if path.is_empty() || path.ends_with('/') { return None; }
    match path.rfind('/') {
        None => Some((".".into(), path.into())),
        Some(i) => { let (p, n) = path.split_at(i); Some((if p.is_empty() { "/".into() } else { p.into() }, n[1..].into())) }
    }
}

fn resolve_dir_rf(rootfd: i32, p: &str, rf: u64) -> Result<OwnedFd, i32> {
    openat2(rootfd, p, O_PATH as u64, RESOLVE_IN_ROOT | RESOLVE_NO_MAGICLINKS | rf)
}

fn raw(r: i64) -> i32 { if r < 0 { errno() } else { 0 } }

/// Perform the reference effect for a single-entry operation. Returns the expectation for the library's outcome.
fn oracle_single(rootfd: i32, op: &Op) -> Expect {
    let path = op.path.clone().unwrap_or_default();
    let (parent, name) = match split_final(&path) { Some(x) => x, None => return Expect::InvalidArgument };
    let rf = op.rflags.unwrap_or(0);
    let dir = match resolve_dir_rf(rootfd, &parent, rf) { Ok(d) => d, Err(e) => return Expect::Errno(e) };
    let d = dir.as_raw_fd();
    let cname = cs(&name);
    let mode = op.mode.unwrap_or(0o644);
    let opname = match (op.api.as_str(), op.name.as_str()) {
        ("c", "mknod") => match mode & libc::S_IFMT { libc::S_IFREG => "create:file", libc::S_IFDIR => "create:dir", libc::S_IFIFO => "create:fifo", _ => "create:?" }.to_string(),
        ("c", "mkdir") => "create:dir".into(),
        ("c", "symlink") => "create:symlink".into(),
        ("c", "hardlink") => "create:hardlink".into(),
        (_, "create") => format!("create:{}", op.itype.clone().unwrap_or_default()),
        (_, n) => n.to_string(),
    };
    let perm = mode & 0o7777;
    unsafe {
        match opname.as_str() {
            "create:file" => Expect::Errno(raw(libc::mknodat(d, cname.as_ptr(), libc::S_IFREG | perm, 0) as i64)),
            "create:dir" => Expect::Errno(raw(libc::mkdirat(d, cname.as_ptr(), perm) as i64)),
            "create:fifo" => Expect::Errno(raw(libc::mknodat(d, cname.as_ptr(), libc::S_IFIFO | perm, 0) as i64)),
            "create:chr" => Expect::Errno(raw(libc::mknodat(d, cname.as_ptr(), libc::S_IFCHR | perm, op.dev.unwrap_or(0x0103)) as i64)),
            "create:blk" => Expect::Errno(raw(libc::mknodat(d, cname.as_ptr(), libc::S_IFBLK | perm, op.dev.unwrap_or(0x0700)) as i64)),
            "create:symlink" => { let t = cs(op.path2.as_deref().unwrap_or("")); Expect::Errno(raw(libc::symlinkat(t.as_ptr(), d, cname.as_ptr()) as i64)) }
            "create:hardlink" => {
                let tgt = op.path2.clone().unwrap_or_default();
                let (tp, tn) = match split_final(&tgt) { Some(x) => x, None => return Expect::InvalidArgument };
                let td = match resolve_dir_rf(rootfd, &tp, rf) { Ok(d) => d, Err(e) => return Expect::Errno(e) };
                let ctn = cs(&tn);
                Expect::Errno(raw(libc::linkat(td.as_raw_fd(), ctn.as_ptr(), d, cname.as_ptr(), 0) as i64))
            }
            "create_file" => {
                // '.' and '..' cannot be created: the kernel says EISDIR - except that O_PATH makes it ignore O_CREAT and open the
                // directory / its parent instead, which for the root would be an object outside the root (C03 forbids that):
                // the reference effect for these two names is the refusal, for every flag set
                if cname.as_bytes() == b"." || cname.as_bytes() == b".." { return Expect::Errno(libc::EISDIR); }
                let fl = op.flags.unwrap_or(0) as i32 | libc::O_CREAT | libc::O_NOFOLLOW | libc::O_CLOEXEC | libc::O_NOCTTY;
                let fd = libc::openat(d, cname.as_ptr(), fl, perm);
                if fd >= 0 { libc::close(fd); Expect::Errno(0) } else { Expect::Errno(errno()) }
            }
            "remove_file" => Expect::Errno(raw(libc::unlinkat(d, cname.as_ptr(), 0) as i64)),
            "remove_dir" => Expect::Errno(raw(libc::unlinkat(d, cname.as_ptr(), libc::AT_REMOVEDIR) as i64)),
            "rename" => {
                let dst = op.path2.clone().unwrap_or_default();
                let (dp, dn) = match split_final(&dst) { Some(x) => x, None => return Expect::InvalidArgument };
                let dd = match resolve_dir_rf(rootfd, &dp, rf) { Ok(x) => x, Err(e) => return Expect::Errno(e) };
                let cdn = cs(&dn);
                Expect::Errno(raw(libc::syscall(libc::SYS_renameat2, d, cname.as_ptr(), dd.as_raw_fd(), cdn.as_ptr(), op.flags.unwrap_or(0) as u32)))
            }
            _ => Expect::Fails,
        }
    }
}

/// rm -r of exactly the named entry, never following links
fn oracle_remove_all(rootfd: i32, op: &Op) -> Expect {
    let path = op.path.clone().unwrap_or_default();
    let (parent, name) = match split_final(&path) { Some(x) => x, None => return Expect::InvalidArgument };
    if name == "." || name == ".." { return Expect::Fails; }
    let rf = op.rflags.unwrap_or(0);
    let dir = match resolve_dir_rf(rootfd, &parent, rf) { Ok(d) => d, Err(e) => return Expect::Errno(e) };
    let full = format!("/proc/self/fd/{}/{}", dir.as_raw_fd(), name);
    let probe = lstat(&full);
    // a caller without search permission on the parent cannot even tell whether the name exists
    if probe.is_none() { let e = errno(); if e != libc::ENOENT && e != libc::ENOTDIR { return Expect::Errno(e); } }
    match probe {
        None => {
            // nothing by that name: if the parent is not even a directory the lookup fails with ENOTDIR; otherwise nothing to do
            match fstat(dir.as_raw_fd()) { Some(st) if st.is_dir() => Expect::Errno(0), _ => Expect::Errno(libc::ENOTDIR) }
        }
        Some(st) => {
            let r = if st.is_dir() { std::fs::remove_dir_all(&full) } else { std::fs::remove_file(&full) };
            match r { Ok(()) => Expect::Errno(0), Err(e) => Expect::Errno(e.raw_os_error().unwrap_or(-1)) }
        }
    }
}

/// mkdir -p along the in-root resolution of the path: existing prefix (through links, '..' allowed there), then plain new components
fn oracle_mkdir_all(rootfd: i32, op: &Op, umask: u32) -> (Expect, Option<(u64, u64)>) {
    let path = op.path.clone().unwrap_or_default();
    let mode = op.mode.unwrap_or(0o755);
    if mode & !0o1777 != 0 { return (Expect::InvalidArgument, None); }
    // longest resolvable prefix, component-wise from the right (what "the existing part" means); the error of the
    // shortest failing prefix decides whether anything may be created at all (only ENOENT does)
    let comps: Vec<&str> = path.split('/').collect();
    let n = comps.len();
    let mut base: Option<OwnedFd> = None;
    let mut k = n;
    let mut err_above = 0; // error of prefix k+1
    loop {
        let joined = comps[..k].join("/");
        let p = if k == 0 { ".".to_string() } else if joined.is_empty() { "/".to_string() } else { joined };
        match openat2(rootfd, &p, O_PATH as u64, RESOLVE_IN_ROOT | RESOLVE_NO_MAGICLINKS | op.rflags.unwrap_or(0)) {
            Ok(fd) => { base = Some(fd); break; }
            Err(e) => { err_above = e; if k == 0 { break; } k -= 1; }
        }
    }
    let base = match base { Some(b) => b, None => return (Expect::Errno(err_above), None) };
    if k < n && err_above != libc::ENOENT { return (Expect::Errno(err_above), None); }
    let rest: Vec<&str> = comps[k..].iter().copied().filter(|c| !c.is_empty() && *c != ".").collect();
    match fstat(base.as_raw_fd()) { Some(st) if st.is_dir() => {}, _ => return (Expect::Errno(libc::ENOTDIR), None) }
    if rest.iter().any(|c| *c == "..") { return (Expect::Fails, None); }
    let old = unsafe { libc::umask(umask) };
    let mut cur: OwnedFd = base;
    let mut exp = Expect::Errno(0);
    for c in rest {
        let cc = cs(c);
        let r = unsafe { libc::mkdirat(cur.as_raw_fd(), cc.as_ptr(), mode) };
        if r != 0 && errno() != libc::EEXIST { exp = Expect::Errno(errno()); break; }
        let fd = unsafe { libc::openat(cur.as_raw_fd(), cc.as_ptr(), libc::O_RDONLY | libc::O_NOFOLLOW | libc::O_DIRECTORY | libc::O_CLOEXEC | libc::O_NOCTTY) };
        if fd < 0 { exp = Expect::Errno(errno()); break; }
        cur = unsafe { std::os::unix::io::FromRawFd::from_raw_fd(fd) };
    }
    unsafe { libc::umask(old) };
    let id = fstat(cur.as_raw_fd()).map(|s| (s.dev, s.ino));
    let ok = exp == Expect::Errno(0);
    (exp, if ok { id } else { None })
}

fn snap_all() -> MResult<Snap> { snapshot(&out("/w")) }

fn id_path(s: &Snap, fd: &Option<FdInfo>) -> Option<String> {
    let fd = fd.as_ref()?;
    s.iter().find(|(_, n)| n.dev == fd.dev && n.ino == fd.ino).map(|(p, _)| p.clone())
}

fn canon_diff(a: &BTreeMap<String, String>, b: &BTreeMap<String, String>) -> String {
    let mut v = Vec::new();
    for (k, x) in a { match b.get(k) { None => v.push(format!("-{}", k)), Some(y) if y != x => v.push(format!("~{} [{}] vs [{}]", k, x, y)), _ => {} } }
    for k in b.keys() { if !a.contains_key(k) { v.push(format!("+{}", k)); } }
    v.truncate(6);
    v.join("; ")
}

fn errclass(o: &Obs) -> String { if o.panic.is_some() { "PANIC".into() } else if o.ok { "ok".into() } else { format!("{}/{}", errname(o.errno.unwrap_or(-1)), o.kind.clone().unwrap_or_default()) } }

pub fn run_item(prop: &str, tier: &str, idx: usize, only: Option<&Value>) -> MResult<ItemResult> {
    let np = plain_items(prop, tier);
    if idx >= np { return run_caller_item(prop, tier, idx, idx - np, only); }
    let sc = scope(prop, tier);
    let mut res = ItemResult::default();
    enter_jail()?;
    build_decoys()?;
    let umask = 0o022u32;
    let nbase = base_items(prop, tier);
    let norenameat2 = idx >= nbase;
    let item_idx = idx;
    let idx = idx % nbase;
    let (kn, en) = if norenameat2 { ("K-norenameat2", "E-norenameat2") } else { ("K", "E") };
    let extra: Vec<String> = if norenameat2 { vec!["renameat2".into()] } else { vec![] };
    let mut k = Wk::spawn(kn, &Setup { jail: JAIL.into(), deny: extra.clone(), umask: Some(umask), ..Default::default() })?;
    // every third item: "no openat2" the way an old seccomp profile produces it (EPERM, also for the new mount API)
    let mut e = Wk::spawn(en, &Setup { jail: JAIL.into(), deny: [if item_idx % 3 == 1 { Wk::old_profile_deny() } else { vec!["openat2".to_string()] }, extra].concat(), umask: Some(umask), ..Default::default() })?;
    k.timeout_ms = 60_000; e.timeout_ms = 60_000;
    let root_out = out(ROOT_IN);
    let rootfd = open_path(&root_out)?;
    let (lo, hi) = (idx * sc.chunk, ((idx + 1) * sc.chunk).min(sc.trees.len()));
    let mut states: std::collections::BTreeSet<u64> = Default::default();
    let root_id = lstat(&out(ROOT_IN)).map(|st| (st.dev, st.ino)).ok_or_else(|| Mach("root directory missing at item start".into()))?;
    for ti in lo..hi {
        let tree = &sc.trees[ti];
        if let Some(o) = only { if o["tree_idx"].as_u64() != Some(ti as u64) { continue; } }
        rebuild(tree)?;
        let s0 = snap_all()?;
        let c0 = canon(&s0);
        states.insert(hash64(&format!("{:?}", c0)));
        for path in &sc.paths {
            for mut op in ops_for(prop, path, sc.thorough) {
                if op.api != "c" { op.via = api_flavour(prop, item_idx); }
                if let Some(o) = only { let want: Op = serde_json::from_value(o["op"].clone()).map_err(|e| Mach(format!("bad replay op: {}", e)))?; if want != op { continue; } }
                if norenameat2 && op.name != "rename" { continue; }
                let replay = json!({"engine": "mutmc", "item": item_idx, "tree_idx": ti, "tree": tree.text(), "op": op});
                // --- K
                rebuild(tree)?;
                let mut ok_ = k.one(op.clone().keep("r"))?;
                // transient: the kernel aborted openat2 with EAGAIN 16 times in a row because something else on the machine
                // renames/mounts continuously (surfaces as a safety violation); not a property of this case - run it again
                let mut tries = 0;
                while !ok_.ok && matches!(ok_.errno, Some(libc::EXDEV) | Some(libc::EAGAIN)) && tries < 30 {
                    tries += 1;
                    k.one(Op::new("close_handle").handle("r"))?;
                    rebuild(tree)?;
                    ok_ = k.one(op.clone().keep("r"))?;
                }
                if !ok_.ok && ok_.msg.as_deref().map(|m| m.contains("racing filesystem changes caused openat2 to abort")).unwrap_or(false) {
                    // still aborted after 30 attempts: the machine is being hammered with renames by something else;
                    // this case cannot be decided now (counted, never a verdict)
                    res.count("transient_undecided", 1);
                    k.one(Op::new("close_handle").handle("r"))?;
                    continue;
                }
                let sk = snap_all()?;
                // an operation that wipes out the root directory itself (or its parent's contents) leaves nothing to continue on:
                // report it and end this item here (the world is rebuilt by the next item's process)
                let root_gone = |who: &str, res: &mut ItemResult| -> bool {
                    let alive = lstat(&out(ROOT_IN)).map(|st| (st.dev, st.ino) == root_id).unwrap_or(false);
                    if !alive { res.violate(format!("{}:{}:root-destroyed", who, op.name), format!("tree [{}] {} on {}: the root directory itself no longer exists afterwards (the operation acted on the root's parent)", tree.text(), op.brief(), who), replay.clone()); }
                    !alive
                };
                if root_gone(kn, &mut res) { return Ok(res); }
                let kpath = id_path(&sk, &ok_.fd);
                k.one(Op::new("close_handle").handle("r"))?;
                // --- E
                rebuild(tree)?;
                let oe = e.one(op.clone().keep("r"))?;
                let se = snap_all()?;
                if root_gone(en, &mut res) { return Ok(res); }
                let epath = id_path(&se, &oe.fd);
                e.one(Op::new("close_handle").handle("r"))?;
                let (ck, ce) = (canon(&sk), canon(&se));
                res.evaluations += 2;
                res.transitions += 2;
                states.insert(hash64(&format!("{:?}", ck)));
                states.insert(hash64(&format!("{:?}", ce)));
                res.outcome(format!("{}:{}", op.name, errclass(&ok_)));
                let changed = ck != c0;
                if changed || !ok_.ok { res.nontrivial += 1; }
                let desc0 = format!("tree [{}] {}", tree.text(), op.brief());
                for (bk, o) in [(kn, &ok_), (en, &oe)] {
                    if let Some(p) = &o.panic { res.violate(format!("{}:panic:{}", bk, op.name), format!("{} on {}: panic {}", desc0, bk, p), replay.clone()); }
                }
                if prop == "C04" {
                    if errclass(&ok_) != errclass(&oe) {
                        res.violate(format!("mut:{}:K={} E={}", op.name, errclass(&ok_), errclass(&oe)), format!("{}: kernel backend {} ({}), emulated backend {} ({})", desc0, errclass(&ok_), ok_.msg.clone().unwrap_or_default(), errclass(&oe), oe.msg.clone().unwrap_or_default()), replay.clone());
                    } else if ck != ce {
                        res.violate(format!("mut:{}:tree-differs", op.name), format!("{}: resulting trees differ between backends: {}", desc0, canon_diff(&ck, &ce)), replay.clone());
                    } else if ok_.ok && (kpath != epath || ok_.fd.as_ref().map(|f| (f.getfl & crate::lookup::GETFL_MASK, f.cloexec)) != oe.fd.as_ref().map(|f| (f.getfl & crate::lookup::GETFL_MASK, f.cloexec))) {
                        res.violate(format!("mut:{}:handle-differs", op.name), format!("{}: returned descriptors differ: K {:?} fl={:x?} vs E {:?} fl={:x?}", desc0, kpath, ok_.fd.as_ref().map(|f| f.getfl), epath, oe.fd.as_ref().map(|f| f.getfl)), replay.clone());
                    }
                    continue;
                }
                // --- oracle twin
                rebuild(tree)?;
                let mut want_id: Option<(u64, u64)> = None;
                let exp = match prop {
                    "C14" => oracle_single(rootfd.as_raw_fd(), &op),
                    "C13" => oracle_remove_all(rootfd.as_raw_fd(), &op),
                    _ => { let (x, id) = oracle_mkdir_all(rootfd.as_raw_fd(), &op, umask); want_id = id; x }
                };
                let so = snap_all()?;
                let co = canon(&so);
                let want_path = want_id.and_then(|id| so.iter().find(|(_, n)| (n.dev, n.ino) == id).map(|(p, _)| p.clone()));
                res.traces_validated += 1;
                for (bk, o, c, hp) in [(kn, &ok_, &ck, &kpath), (en, &oe, &ce, &epath)] {
                    if o.panic.is_some() { continue; }
                    let got = if o.ok { 0 } else { o.errno.unwrap_or(-1) };
                    // without renameat2(2) a flagged rename cannot be done atomically: refusing it with ENOSYS and leaving the
                    // tree alone is the only acceptable alternative to the reference effect
                    if norenameat2 && got == libc::ENOSYS && *c == c0 { res.count("refused_without_renameat2", 1); continue; }
                    let mismatch = match &exp {
                        Expect::Errno(w) => *w != got,
                        Expect::Fails => o.ok,
                        Expect::InvalidArgument => {
                            // "rejected as an invalid argument" - unless the part in front of the slash does not even resolve,
                            // in which case that lookup error is an equally faithful rejection
                            let p = op.path.clone().unwrap_or_default();
                            let pre = p.trim_end_matches('/');
                            let pre_err = if p.ends_with('/') && !pre.is_empty() { openat2(rootfd.as_raw_fd(), pre, O_PATH as u64, RESOLVE_IN_ROOT | RESOLVE_NO_MAGICLINKS | op.rflags.unwrap_or(0)).err() } else { None };
                            let p2 = op.path2.clone().unwrap_or_default();
                            let pre2 = p2.trim_end_matches('/');
                            let pre2_err = if matches!(op.name.as_str(), "rename" | "hardlink") || op.itype.as_deref() == Some("hardlink") { if p2.ends_with('/') && !pre2.is_empty() { openat2(rootfd.as_raw_fd(), pre2, O_PATH as u64, RESOLVE_IN_ROOT | RESOLVE_NO_MAGICLINKS | op.rflags.unwrap_or(0)).err() } else { None } } else { None };
                            o.ok || !(o.kind.as_deref() == Some("InvalidArgument") || o.errno == Some(libc::EINVAL) || (pre_err.is_some() && o.errno == pre_err) || (pre2_err.is_some() && o.errno == pre2_err))
                        }
                    };
                    if mismatch {
                        res.violate(format!("{}:{}:outcome:want={:?}:got={}", bk, op.name, exp, errclass(o)), format!("{} on {}: the statement's reference gives {:?}, libpathrs gives {} ({})", desc0, bk, exp, errclass(o), o.msg.clone().unwrap_or_default()), replay.clone());
                        continue;
                    }
                    if *c != co {
                        res.violate(format!("{}:{}:frame", bk, op.name), format!("{} on {} ({}): resulting tree differs from the reference effect: {}", desc0, bk, errclass(o), canon_diff(&co, c)), replay.clone());
                        continue;
                    }
                    if prop == "C12" && o.ok && *hp != want_path {
                        res.violate(format!("{}:mkdir_all:handle", bk), format!("{} on {}: returned handle is {:?}, the path resolves to {:?}", desc0, bk, hp, want_path), replay.clone());
                    }
                    if (op.name == "create_file") && o.ok {
                        // the descriptor is the very file now under that name
                        let (p, n) = split_final(op.path.as_deref().unwrap_or("")).unwrap_or((".".into(), String::new()));
                        let _ = (p, n);
                        let fd = o.fd.as_ref();
                        let snap = if bk == kn { &sk } else { &se };
                        let there = fd.and_then(|f| snap.iter().find(|(_, nn)| nn.dev == f.dev && nn.ino == f.ino));
                        if there.is_none() { res.violate(format!("{}:create_file:identity", bk), format!("{} on {}: returned descriptor is not an object of the tree", desc0, bk), replay.clone()); }
                    }
                }
                if res.samples.len() < 3 && changed { res.sample(json!({"tree": tree.text(), "op": op.brief(), "K": errclass(&ok_), "E": errclass(&oe), "reference": format!("{:?}", exp), "effect": canon_diff(&c0, &co)})); }
            }
        }
        res.count("trees", 1);
    }
    res.states = states.len() as u64;
    Ok(res)
}

pub fn report(prop: &str, tier: &str) -> Report {
    let sc = scope(prop, tier);
    let nops = ops_for(prop, "a/x", sc.thorough).len();
    let what = match prop {
        "C14" => "single-entry operations (create x {file,dir,fifo,chr,blk,symlink,hardlink}, create_file x flags, remove_file, remove_dir, rename x {0,NOREPLACE,EXCHANGE,WHITEOUT}, C entry points with raw S_IFMT)",
        "C12" => "mkdir_all x modes (umask 022; setgid-parent tree included)",
        "C13" => "remove_all",
        _ => "all mutating operations",
    };
    Report {
        level: if prop == "C04" { "exploration" } else { "model_checking" },
        rule: format!("{} trees x {} path spellings (all sequences of <=2{} components over {{a,b,x,.,..}} with leading/trailing '/', '', '/', '//', empty and dot components, missing intermediate components) x {} ({} ops per path) x backends {{openat2, emulated}}; every case on a freshly built tree; plus two caller passes (uid 1000 without capabilities; root without capabilities) on a tree with unwritable / unreadable / root-owned / world-writable / sticky directories x 38 paths x the same operations, reference effect produced by a forked child with the caller's identity (C12/C13: failing calls judged for confinement only); Rust API flavour (RootRef, owned Root, clone of either) rotated over the work items; {}; states = distinct canonical trees reached, transitions = operation applications; non-trivial = the operation changed the tree or failed",
            sc.trees.len(), sc.paths.len(), if sc.thorough { "(+selected 3)" } else { "" }, what, nops,
            if prop == "C04" { "oracle: the two backends against each other (outcome class, errno, resulting tree, returned descriptor)" } else { "oracle: a twin tree on which the harness resolves the parent with openat2(RESOLVE_IN_ROOT) and issues the single raw *at call (rm -r / mkdir -p for C13/C12): same errno, isomorphic resulting filesystem including everything outside the root" }),
        assumptions: vec!["Linux 6.18 tmpfs semantics for the raw *at calls of the oracle twin".into(), "small-scope hypothesis (names a,b,x; depth <= 3)".into(), "kernel-without-openat2 simulated by seccomp ENOSYS".into()],
        exhaustive: true,
        extra: json!({"trees": sc.trees.len(), "paths": sc.paths.len(), "ops_per_path": nops}),
    }
}
