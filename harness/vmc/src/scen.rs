//! Drivers for the schedule / fault explorations: the race tree, lookup paths, mutation alphabets, operation scenarios.

use crate::gen::*;
use crate::sys::*;
use crate::sysmc::*;
use crate::tree::*;
use proto::*;

/// T_race, built below /w/outer/parent (root/ is the Root). See DESIGN.md appendix A.
pub fn build_race_world() -> MResult<()> {
    let parent = out(PARENT_IN);
    clear_dir(&out("/w"))?;
    std::fs::create_dir_all(out(ROOT_IN)).map_err(|e| Mach(format!("mkdir root: {}", e)))?;
    let root = TreeSpec::default()
        .dir("a").dir("a/b").dir("a/b/c").dir("a/b/c/d").link("a/b/lnk", "../../e")
        .dir("e").file("e/f")
        .link("abs", "/a/b").link("up", "..").file("file")
        .link("evil-rel", "../../../../../../secret").link("evil-abs", "/../../../secret").link("evil-dir", "../../sibling")
        .link("wl", ".")
        // a /tmp-like directory (sticky, world-writable, owned by root) for callers with different uids
        .add("tmp", crate::tree::Kind::DirMode(0o1777));
    root.build(&out(ROOT_IN))?;
    let outside = TreeSpec::default()
        .dir("attacker").dir("attacker/x").dir("attacker/x/c").dir("attacker/x/c/d").file("attacker/x/secret2").dir("attacker/x/b").dir("attacker/x/b/c").dir("attacker/x/b/c/d")
        .file("attacker/x/f").dir("attacker/x/e").file("attacker/x/e/f").link("attacker/x/lnk", "/etc/shadow").link("attacker/x/b/lnk", "/etc/shadow")
        // never-inside look-alikes the attacker plants INSIDE a directory it has moved out of the root (plant-* mutations)
        .dir("attacker/plant").dir("attacker/plant/b").dir("attacker/plant/b/c").dir("attacker/plant/b/c/d").link("attacker/plant/b/lnk", "/etc/shadow").dir("attacker/plant/c").dir("attacker/plant/c/d").dir("attacker/plant/d").link("attacker/plant/lnk", "/etc/shadow").file("attacker/plant/f")
        .link("attacker/l-root", "/").link("attacker/l-up2", "../..").link("attacker/l-secret", "/../secret")
        // every name the walked paths use also exists directly in the attacker's directory (and its parent), so that a walk
        // that climbs out of a moved directory *finds* something
        .link("attacker/lnk", "/etc/passwd").link("attacker/abs", "/etc").dir("attacker/c").dir("attacker/c/d").dir("attacker/b").dir("attacker/b/c").dir("attacker/e").file("attacker/e/f").file("attacker/f").dir("attacker/a").dir("attacker/a/b").dir("attacker/d")
        .link("lnk", "/etc/shadow").link("abs", "/etc").dir("b").dir("b/c").dir("c").dir("c/d").dir("d")
        .dir("sibling").dir("sibling/a").dir("sibling/a/b").dir("sibling/a/b/c").dir("sibling/a/b/c/d").dir("sibling/e").file("sibling/e/f").file("sibling/secret").file("sibling/f")
        .file("secret").file("target").dir("a").dir("a/b").dir("a/b/c").dir("a/b/c/d").dir("e").file("e/f").file("f");
    outside.build(&parent)?;
    let deco = TreeSpec::default().file("secret").dir("a").dir("a/b").dir("a/b/c").dir("e").file("e/f").dir("sibling").file("sibling/secret").file("f");
    deco.build(&out(OUTER_IN))?;
    deco.build(&out("/w"))?;
    // the jail root gets decoys once (ignore EEXIST)
    let _ = TreeSpec::default().file("secret").build(JAIL);
    let _ = TreeSpec::default().dir("a").build(JAIL);
    let _ = TreeSpec::default().dir("a/b").build(JAIL);
    let _ = TreeSpec::default().dir("e").build(JAIL);
    let _ = TreeSpec::default().file("e/f").build(JAIL);
    let _ = TreeSpec::default().dir("sibling").build(JAIL);
    let _ = TreeSpec::default().dir("etc").build(JAIL);
    Ok(())
}

pub fn lookup_paths(thorough: bool) -> Vec<&'static str> {
    // the last three: a trailing slash makes the kernel follow the final component even under O_NOFOLLOW (one-component paths included)
    let mut v = vec!["a/b/c/d", "a/b/../b/c/../../b/c/d", "a/b/lnk/f", "abs/c/d", "up/up/a/b", "a/b/c/d/../../../../e/f", "a/b/lnk", "abs", "a/b/c/../lnk", "a/b/c/../../../abs", "e/", "a/b/", "abs/"];
    if thorough { v.extend_from_slice(&["a/b/c/../../../../../../a", "a/b/c/d/nonexist", "e/../a/b/lnk/../a", "/abs/../b/c"]); }
    v
}

pub fn setup_for(backend: &str) -> Setup {
    // "P": old seccomp profile (EPERM for openat2 and the new mount API) - selects the emulated resolvers like "E"
    Setup { jail: JAIL.into(), deny: if backend == "E" { vec!["openat2".into()] } else if backend == "P" { crate::wk::Wk::old_profile_deny() } else { vec![] }, ..Default::default() }
}

/// Warm-up: open the Root and initialise every process-global lazy (backend probe, procfs handle, protected_symlinks sysctl)
pub fn warmup_ops() -> Vec<Op> {
    vec![
        Op::new("open_root_key").root(ROOT_IN),
        Op::new("resolve").root(ROOT_IN).path("wl"),
        Op::new("open_subpath").root(ROOT_IN).path("wl").flags(O_RDONLY | O_DIRECTORY),
        // the kernel backend touches procfs only when re-opening: make sure the global procfs handle exists
        Op::new("resolve").root(ROOT_IN).path("e").keep("warm-h"),
        Op::new("reopen").handle("warm-h").flags(O_RDONLY | O_DIRECTORY),
        Op::new("close_handle").handle("warm-h"),
    ]
}

pub fn cold_ops() -> Vec<Op> {
    vec![Op::new("open_root_key").root(ROOT_IN)]
}

pub fn oneshot(backend: &str, op: Op, warm: bool) -> OneShot {
    let mut op = op;
    if op.keep.is_none() { op.keep = Some("ret".into()); }
    OneShot { setup: setup_for(backend), warmup: if warm { warmup_ops() } else { cold_ops() }, op }
}

/// Mutation alphabet for a walked path. `full`: the whole alphabet of appendix A; otherwise the core subset used for bound >= 2.
pub fn mutations_for(path: &str, full: bool) -> Vec<Mutation> {
    let r = |p: &str| format!("{}/{}", out(ROOT_IN), p);
    let at = |p: &str| format!("{}/attacker/{}", out(PARENT_IN), p);
    let mut prefixes: Vec<&str> = Vec::new();
    for p in ["a", "a/b", "a/b/c", "e"] {
        if path.contains(p.rsplit('/').next().unwrap()) || full { prefixes.push(p); }
    }
    let mut v = Vec::new();
    for p in &prefixes {
        v.push(Mutation::xchg(&r(p), &r("evil-rel")));
        v.push(Mutation::xchg(&r(p), &r("evil-dir")));
        v.push(Mutation::xchg(&r(p), &at("x")));
        v.push(Mutation::mv(&r(p), &at("moved")));
        v.push(Mutation::mv(&at("moved"), &r(p)));
        if full {
            v.push(Mutation::xchg(&r(p), &r("file")));
            v.push(Mutation::xchg(&r(p), &r("evil-abs")));
        }
    }
    for l in ["a/b/lnk", "abs", "up"] {
        if path.contains(l.rsplit('/').next().unwrap()) {
            v.push(Mutation::xchg(&r(l), &at("l-secret")));
            if full {
                v.push(Mutation::xchg(&r(l), &at("l-root")));
                v.push(Mutation::xchg(&r(l), &at("l-up2")));
                v.push(Mutation::xchg(&r(l), &r("evil-dir")));
            }
        }
    }
    // the attacker replaces an entry INSIDE a directory it has moved out of the root by a never-inside look-alike: a walk that
    // continues downwards from the moved directory then meets objects that never were in the root (what the final
    // verification of a walk is for). Enabled only while the moved directory sits outside.
    for (p, kids) in [("a", vec!["b"]), ("a/b", vec!["c", "lnk"]), ("a/b/c", vec!["d"]), ("e", vec!["f"])] {
        if !prefixes.contains(&p) { continue; }
        for k in kids {
            if k == "lnk" && !path.contains("lnk") { continue; }
            let mut m = Mutation::xchg(&at(&format!("moved/{}", k)), &at(&format!("plant/{}", k)));
            m.name = format!("plant({} in moved {})", k, p);
            v.push(m);
        }
    }
    if full { v.push(Mutation::rm(&r("a/b/c/d"))); v.push(Mutation::rm(&r("e/f"))); }
    // names the path expects to be missing: the attacker creates them (and removes them again) at any moment
    let mut prefix = String::new();
    for comp in path.split_whitespace().next().unwrap_or("").split('/') {
        if comp.is_empty() || comp == "." || comp == ".." { if comp == ".." { break; } continue; }
        prefix = if prefix.is_empty() { comp.to_string() } else { format!("{}/{}", prefix, comp) };
        let resolved = prefix.replacen("abs", "a/b", 1);
        if lstat(&r(&resolved)).is_none() && !resolved.contains("lnk") && !resolved.starts_with("up") {
            v.push(Mutation::mkdir(&r(&resolved)));
            v.push(Mutation::rm(&r(&resolved)));
            break;
        }
    }
    v
}

#[derive(Clone, Debug)]
pub struct Scenario {
    pub name: String,
    pub backend: String,
    pub op: Op,
    pub path: String,
}

pub fn lookup_scenarios(thorough: bool) -> Vec<Scenario> {
    let mut v = Vec::new();
    for b in ["E", "K"] {
        for p in lookup_paths(thorough) {
            let mut ops = vec![Op::new("resolve").root(ROOT_IN).path(p), Op::new("open_subpath").root(ROOT_IN).path(p).flags(O_RDONLY | O_NONBLOCK)];
            if p == "a/b/lnk/f" || p == "a/b/c/d" { ops.push(Op::new("open_subpath").root(ROOT_IN).path(p).flags(O_PATH)); }
            if thorough || p.ends_with("lnk") || p == "abs" { ops.push(Op::new("resolve_nofollow").root(ROOT_IN).path(p)); ops.push(Op::new("readlink").root(ROOT_IN).path(p)); }
            for op in ops {
                v.push(Scenario { name: format!("{}/{}", b, op.brief()), backend: b.into(), op, path: p.into() });
            }
        }
        // resolver flag NO_SYMLINKS on the '..'-heavy, link-free paths
        for p in ["a/b/../b/c/../../b/c/d", "a/b/c/d/../../../../e/f", "a/b/c/../../../../../../a"] {
            let mut ops = vec![Op::new("resolve").root(ROOT_IN).path(p).rflags(RESOLVE_NO_SYMLINKS)];
            if thorough { ops.push(Op::new("open_subpath").root(ROOT_IN).path(p).flags(O_RDONLY | O_NONBLOCK).rflags(RESOLVE_NO_SYMLINKS)); ops.push(Op::new("resolve_nofollow").root(ROOT_IN).path(p).rflags(RESOLVE_NO_SYMLINKS)); }
            for op in ops { v.push(Scenario { name: format!("{}/{}", b, op.brief()), backend: b.into(), op, path: p.into() }); }
        }
    }
    v
}

/// Mutating-operation scenarios on the race tree (C03 under attack, C05, C10, C11).
pub fn mutating_scenarios(thorough: bool) -> Vec<Scenario> {
    let mut ops: Vec<Op> = vec![
        Op::new("remove_all").root(ROOT_IN).path("a"),
        Op::new("remove_all").root(ROOT_IN).path("a/b/c"),
        Op::new("remove_all").root(ROOT_IN).path("e/f"),
        Op::new("mkdir_all").root(ROOT_IN).path("a/b/x/y/z").mode(0o755),
        Op::new("mkdir_all").root(ROOT_IN).path("abs/x/y").mode(0o755),
        Op::new("mkdir_all").root(ROOT_IN).path("x/../../escaped").mode(0o755),
        Op::new("mkdir_all").root(ROOT_IN).path("a/x/../../../../escaped").mode(0o755),
        Op::new("create").root(ROOT_IN).path("a/b/new").itype("file").mode(0o644),
        Op::new("create").root(ROOT_IN).path("a/b/newdir").itype("dir").mode(0o755),
        Op::new("create").root(ROOT_IN).path("a/b/newlnk").itype("symlink").path2("../../e"),
        Op::new("create_file").root(ROOT_IN).path("a/b/newf").flags(O_WRONLY | O_EXCL).mode(0o644),
        Op::new("remove_file").root(ROOT_IN).path("e/f"),
        Op::new("remove_dir").root(ROOT_IN).path("a/b/c/d"),
        Op::new("rename").root(ROOT_IN).path("e/f").path2("a/b/f2").flags(0),
        Op::new("create").root(ROOT_IN).path("a/b/hl").itype("hardlink").path2("e/f"),
    ];
    if thorough {
        ops.push(Op::new("rename").root(ROOT_IN).path("a/b/c").path2("e/c2").flags(libc::RENAME_NOREPLACE as i64));
        ops.push(Op::new("rename").root(ROOT_IN).path("a/b").path2("e").flags(libc::RENAME_EXCHANGE as i64));
        ops.push(Op::new("create").root(ROOT_IN).path("a/b/lnk/fifo").itype("fifo").mode(0o644));
        ops.push(Op::new("remove_all").root(ROOT_IN).path("a/b/lnk"));
        ops.push(Op::new("mkdir_all").root(ROOT_IN).path("up/a/b/../q/r").mode(0o700));
    }
    let mut v = Vec::new();
    for b in ["E", "K"] {
        for op in &ops {
            v.push(Scenario { name: format!("{}/{}", b, op.brief()), backend: b.into(), op: op.clone(), path: format!("{} {}", op.path.clone().unwrap_or_default(), op.path2.clone().unwrap_or_default()) });
        }
    }
    v
}
