//! Bounded-exhaustive generators: trees, paths, open-flag sets. Deterministic; scopes depend on the tier only.

use crate::tree::{Kind, TreeSpec};

pub const O_PATH: i64 = libc::O_PATH as i64;
pub const O_NOFOLLOW: i64 = libc::O_NOFOLLOW as i64;
pub const O_DIRECTORY: i64 = libc::O_DIRECTORY as i64;
pub const O_RDONLY: i64 = libc::O_RDONLY as i64;
pub const O_WRONLY: i64 = libc::O_WRONLY as i64;
pub const O_RDWR: i64 = libc::O_RDWR as i64;
pub const O_NONBLOCK: i64 = libc::O_NONBLOCK as i64;
pub const O_APPEND: i64 = libc::O_APPEND as i64;
pub const O_NOATIME: i64 = libc::O_NOATIME as i64;
pub const O_SYNC: i64 = libc::O_SYNC as i64;
pub const O_DSYNC: i64 = libc::O_DSYNC as i64;
pub const O_DIRECT: i64 = libc::O_DIRECT as i64;
pub const O_TRUNC: i64 = libc::O_TRUNC as i64;
pub const O_CREAT: i64 = libc::O_CREAT as i64;
pub const O_EXCL: i64 = libc::O_EXCL as i64;
pub const O_TMPFILE: i64 = libc::O_TMPFILE as i64;
pub const O_CLOEXEC: i64 = libc::O_CLOEXEC as i64;
pub const O_NOCTTY: i64 = libc::O_NOCTTY as i64;
pub const O_ACCMODE: i64 = libc::O_ACCMODE as i64;

/// Link bodies, one per shortcut visible in the resolvers (absolute, climbing, clamped, dangling, loops via names a/b, trailing slash, dot).
pub fn bodies(thorough: bool) -> Vec<&'static str> {
    let mut v = vec!["a", "b", "a/a", "/a", "/", ".", "..", "../b", "b/..", "x", "/../../../secret", "../../../secret", "a/", "b/"];
    if thorough {
        v.extend_from_slice(&["//", "./a", "../..", "b/../a", "/..//a", "a//a", "b/.", "a/x", "x/..", "/b/a", "../a/a", "../../../outside/"]);
    }
    v
}

#[derive(Clone, Debug)]
enum Top {
    Absent,
    File,
    Fifo,
    Dir(Vec<(&'static str, Sub)>),
    Link(&'static str),
}

#[derive(Clone, Debug)]
enum Sub {
    File,
    Dir,
    Link(&'static str),
}

fn top_options(thorough: bool) -> Vec<Top> {
    let mut v = vec![Top::Absent, Top::File, Top::Fifo, Top::Dir(vec![]), Top::Dir(vec![("a", Sub::File)]), Top::Dir(vec![("a", Sub::Dir)])];
    for b in bodies(thorough) { v.push(Top::Dir(vec![("a", Sub::Link(b))])); }
    for b in bodies(thorough) { v.push(Top::Link(b)); }
    if thorough {
        // two children: a (dir) and b (link/file)
        v.push(Top::Dir(vec![("a", Sub::Dir), ("b", Sub::File)]));
        for b in ["a", "../a", "/b/a", "..", "b"] { v.push(Top::Dir(vec![("a", Sub::Dir), ("b", Sub::Link(b))])); }
    }
    v
}

fn emit(spec: &mut TreeSpec, name: &str, t: &Top) {
    match t {
        Top::Absent => {}
        Top::File => spec.0.push((name.into(), Kind::File)),
        Top::Fifo => spec.0.push((name.into(), Kind::Fifo)),
        Top::Link(b) => spec.0.push((name.into(), Kind::Link((*b).into()))),
        Top::Dir(ch) => {
            spec.0.push((name.into(), Kind::Dir));
            for (n, s) in ch {
                let p = format!("{}/{}", name, n);
                match s {
                    Sub::File => spec.0.push((p, Kind::File)),
                    Sub::Dir => spec.0.push((p, Kind::Dir)),
                    Sub::Link(b) => spec.0.push((p, Kind::Link((*b).into()))),
                }
            }
        }
    }
}

/// All trees over top-level names {a,b} (thorough: the option list is larger) - every combination, smallest first.
pub fn trees(thorough: bool) -> Vec<TreeSpec> {
    let opts = top_options(thorough);
    // the second name ranges over a reduced option list (absent, file, dir+file, and the bodies that create loops,
    // climbing and absolute links together with the first name); the first name ranges over everything
    let mut bopts = vec![Top::Absent, Top::File, Top::Dir(vec![("a", Sub::File)]), Top::Link("a"), Top::Link("b"), Top::Link(".."), Top::Link("/a")];
    if thorough { bopts.extend([Top::Fifo, Top::Dir(vec![]), Top::Dir(vec![("a", Sub::Link("../a"))]), Top::Link("a/a"), Top::Link("../../../secret"), Top::Link("x")]); }
    let mut v = Vec::new();
    for a in &opts {
        for b in &bopts {
            let mut s = TreeSpec::default();
            emit(&mut s, "a", a);
            emit(&mut s, "b", b);
            v.push(s);
        }
    }
    // names and link bodies that are not valid UTF-8 (raw bytes travel as private-use characters, see proto::dec_path)
    v.push(TreeSpec::default().dir("d\u{E0E9}").file("d\u{E0E9}/f\u{E0FF}").link("a", "d\u{E0E9}/f\u{E0FF}").link("b", "/d\u{E0E9}/../x\u{E080}").file("x\u{E080}"));
    v.sort_by_key(|t| (t.0.len(), t.text()));
    v.dedup();
    v
}

/// Chains of symlinks around the kernel's 40-traversal budget: l1 -> l2 -> ... -> ln -> target
pub fn chain_tree(n: usize) -> TreeSpec {
    let mut s = TreeSpec::default().dir("t");
    for i in 1..=n {
        let body = if i == n { "t".to_string() } else { format!("l{}", i + 1) };
        s.0.push((format!("l{}", i), Kind::Link(body)));
    }
    s
}

/// Path strings: all sequences of 1..=maxlen components over {a,b,x,.,..} with decorations (leading '/', trailing '/', both),
/// plus specials ('' , '/', '//', '.', empty components, long component / long path).
pub fn paths(maxlen: usize, thorough: bool) -> Vec<String> {
    let sigma = ["a", "b", "x", ".", ".."];
    let mut seqs: Vec<Vec<&str>> = vec![vec![]];
    let mut all: Vec<Vec<&str>> = Vec::new();
    for _ in 0..maxlen {
        let mut next = Vec::new();
        for s in &seqs { for c in sigma { let mut t = s.clone(); t.push(c); next.push(t); } }
        all.extend(next.iter().cloned());
        seqs = next;
    }
    let mut v: Vec<String> = Vec::new();
    for s in &all {
        let j = s.join("/");
        v.push(j.clone());
        v.push(format!("/{}", j));
        v.push(format!("{}/", j));
        if thorough { v.push(format!("/{}/", j)); v.push(format!("{}/.", j)); }
    }
    for sp in ["", "/", "//", "a//a", "a//", "//a", "/./a", "a/./b", "a///..//b", "./", "../", "/..", "/../"] { v.push(sp.to_string()); }
    for sp in ["d\u{E0E9}/f\u{E0FF}", "d\u{E0E9}/../b", "x\u{E080}/", "d\u{E0E9}/f\u{E0FF}/..", "x\u{E081}"] { v.push(sp.to_string()); }
    v.push("a".repeat(255));
    v.push("a".repeat(256));
    v.push(format!("a/{}", "b".repeat(256)));
    // just below PATH_MAX; padded with slashes so that the kernel walk stays short (long walks are aborted with EAGAIN
    // whenever anything on the machine renames or mounts concurrently)
    let long_ok = "/".repeat(4080) + "a"; // 4081 bytes
    v.push("./".repeat(100) + "a");
    v.push(long_ok); // paths of PATH_MAX bytes or more are outside the properties' quantifier
    v.sort();
    v.dedup();
    v.sort_by_key(|p| (p.len(), p.clone()));
    v
}

/// Open-flag sets for one-shot opens. `nonblock_only`: the tree contains a FIFO (nothing may block).
pub fn open_flagsets(thorough: bool, nonblock_only: bool) -> Vec<i64> {
    let mut v: Vec<i64> = vec![
        O_RDONLY | O_NONBLOCK,
        O_PATH | O_NOFOLLOW,
        O_RDONLY | O_DIRECTORY | O_NONBLOCK,
        O_WRONLY | O_NONBLOCK,
        O_RDONLY | O_NOFOLLOW | O_NONBLOCK,
        O_PATH | O_DIRECTORY,
        O_PATH,
    ];
    if !nonblock_only { v.push(O_RDONLY); v.push(O_RDWR); }
    if thorough {
        v.extend_from_slice(&[
            O_PATH | O_DIRECTORY | O_NOFOLLOW, O_RDWR | O_NONBLOCK, O_RDONLY | O_DIRECT | O_NONBLOCK, O_WRONLY | O_APPEND | O_NONBLOCK,
            O_RDONLY | O_NOATIME | O_NONBLOCK, O_RDWR | O_SYNC | O_NONBLOCK, O_RDONLY | O_DIRECTORY | O_NOFOLLOW | O_NONBLOCK,
            O_WRONLY | O_DSYNC | O_NONBLOCK, O_RDONLY | O_NONBLOCK | O_NOCTTY,
        ]);
        if !nonblock_only { v.push(O_WRONLY | O_APPEND); v.push(O_RDONLY | O_DIRECTORY); }
    }
    v
}

pub fn flagnames(f: i64) -> String {
    let mut v = Vec::new();
    if f & O_PATH != 0 { v.push("O_PATH"); } else { v.push(match f & O_ACCMODE { 0 => "O_RDONLY", 1 => "O_WRONLY", 2 => "O_RDWR", _ => "O_ACC3" }); }
    for (b, n) in [(O_NOFOLLOW, "O_NOFOLLOW"), (O_DIRECTORY, "O_DIRECTORY"), (O_NONBLOCK, "O_NONBLOCK"), (O_APPEND, "O_APPEND"), (O_NOATIME, "O_NOATIME"),
        (O_DIRECT, "O_DIRECT"), (O_TRUNC, "O_TRUNC"), (O_CREAT, "O_CREAT"), (O_EXCL, "O_EXCL"), (O_CLOEXEC, "O_CLOEXEC"), (O_NOCTTY, "O_NOCTTY")] {
        if f & b == b && b != 0 { v.push(n); }
    }
    if f & O_TMPFILE == O_TMPFILE { v.push("O_TMPFILE"); }
    if f & O_SYNC == O_SYNC { v.push("O_SYNC"); } else if f & O_DSYNC != 0 { v.push("O_DSYNC"); }
    v.join("|")
}

/// Which flavour of the Rust API performs the operations of work item `idx` (proto::Op::via): the borrowed RootRef, the owned
/// Root's own methods, or a clone made through either - rotated over the items, with a different phase per check, so that every
/// flavour meets every operation and a good part of the trees in each check, and C01/C04 (C14/C04) together cover each tree twice.
pub fn api_flavour(prop: &str, idx: usize) -> Option<String> {
    let off = match prop { "C04" => 2, "C12" => 1, "C13" => 3, _ => 0 };
    match (idx + off) % 4 { 0 => None, 1 => Some("owned".into()), 2 => Some("clone".into()), _ => Some("clone2".into()) }
}
