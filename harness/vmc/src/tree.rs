//! Tree descriptions, building them inside the jail, whole-tree snapshots and diffs.

use crate::sys::*;
use serde::{Deserialize, Serialize};
use std::collections::BTreeMap;

#[derive(Clone, Debug, PartialEq, Eq, Hash, PartialOrd, Ord, Serialize, Deserialize)]
pub enum Kind {
    Dir,
    DirMode(u32),
    File,
    Fifo,
    Link(String),
    /// hard link to another (earlier) entry of the same spec
    Hard(String),
    Chr(u64),
    Sock,
}

/// Entries relative to the directory the tree is built in, parents before children.
#[derive(Clone, Debug, PartialEq, Eq, Hash, PartialOrd, Ord, Serialize, Deserialize, Default)]
pub struct TreeSpec(pub Vec<(String, Kind)>);

impl TreeSpec {
    pub fn dir(mut self, p: &str) -> Self { self.0.push((p.into(), Kind::Dir)); self }
    pub fn file(mut self, p: &str) -> Self { self.0.push((p.into(), Kind::File)); self }
    pub fn fifo(mut self, p: &str) -> Self { self.0.push((p.into(), Kind::Fifo)); self }
    pub fn link(mut self, p: &str, body: &str) -> Self { self.0.push((p.into(), Kind::Link(body.into()))); self }
    pub fn add(mut self, p: &str, k: Kind) -> Self { self.0.push((p.into(), k)); self }

    /// compact text: "a/ a/b->../x f"
    pub fn text(&self) -> String {
        let mut v = Vec::new();
        for (p, k) in &self.0 {
            v.push(match k {
                Kind::Dir => format!("{}/", p),
                Kind::DirMode(m) => format!("{}/[{:o}]", p, m),
                Kind::File => p.clone(),
                Kind::Fifo => format!("{}|", p),
                Kind::Link(b) => format!("{}->{}", p, b),
                Kind::Hard(b) => format!("{}=={}", p, b),
                Kind::Chr(d) => format!("{}%{:x}", p, d),
                Kind::Sock => format!("{}=", p),
            });
        }
        v.join(" ")
    }

    /// Build below `base` (an absolute path outside-view, inside the jail). `base` must exist.
    pub fn build(&self, base: &str) -> MResult<()> {
        if !(base.starts_with("/verif/.jail/") || base == "/verif/.jail") { return mach(format!("refusing to build in {}", base)); }
        for (p, k) in &self.0 {
            let full = format!("{}/{}", base, p);
            let c = cs(&full);
            let r = unsafe {
                match k {
                    Kind::Dir => libc::mkdir(c.as_ptr(), 0o755),
                    Kind::DirMode(m) => { let r = libc::mkdir(c.as_ptr(), 0o755); if r == 0 { libc::chmod(c.as_ptr(), *m) } else { r } }
                    Kind::File => {
                        let fd = libc::open(c.as_ptr(), libc::O_CREAT | libc::O_EXCL | libc::O_WRONLY | libc::O_CLOEXEC, 0o644);
                        if fd >= 0 { let data = format!("content of {}\n", p); libc::write(fd, data.as_ptr() as *const libc::c_void, data.len()); libc::close(fd); 0 } else { -1 }
                    }
                    Kind::Fifo => libc::mkfifo(c.as_ptr(), 0o644),
                    Kind::Link(b) => { let t = cs(b); libc::symlink(t.as_ptr(), c.as_ptr()) }
                    Kind::Hard(b) => { let t = cs(&format!("{}/{}", base, b)); libc::link(t.as_ptr(), c.as_ptr()) }
                    Kind::Chr(d) => libc::mknod(c.as_ptr(), libc::S_IFCHR | 0o666, *d),
                    Kind::Sock => libc::mknod(c.as_ptr(), libc::S_IFSOCK | 0o644, 0),
                }
            };
            if r != 0 { return mach(format!("build {} ({:?}): errno {}", full, k, errno())); }
        }
        Ok(())
    }
}

#[derive(Clone, Debug, PartialEq, Eq, Hash, PartialOrd, Ord, Serialize, Deserialize)]
pub struct Node {
    pub typ: String,
    pub perm: u32,
    pub uid: u32,
    pub gid: u32,
    pub nlink: u64,
    pub size: i64,
    pub body: Option<String>,
    pub ino: u64,
    pub dev: u64,
}

pub type Snap = BTreeMap<String, Node>;

/// lstat-walk of everything below `base` (not following links). Keys are paths relative to base ("" = base).
pub fn snapshot(base: &str) -> MResult<Snap> {
    let mut m = Snap::new();
    let base_dev = lstat(base).map(|s| s.dev).unwrap_or(0);
    fn walk(base: &str, rel: &str, m: &mut Snap, base_dev: u64) -> MResult<()> {
        let full = if rel.is_empty() { base.to_string() } else { format!("{}/{}", base, rel) };
        let st = match lstat(&full) { Some(s) => s, None => return Ok(()) };
        if st.dev != base_dev { return Ok(()); } // never cross into another mount (the jail's /proc)
        let body = if st.is_lnk() { readlink(&full) } else { None };
        m.insert(rel.to_string(), Node {
            typ: st.fmt_type().into(), perm: st.mode & 0o7777, uid: st.uid, gid: st.gid, nlink: st.nlink,
            size: if st.is_dir() { 0 } else { st.size }, body, ino: st.ino, dev: st.dev,
        });
        if st.is_dir() {
            let rd = match std::fs::read_dir(crate::sys::os(&full)) { Ok(r) => r, Err(_) => return Ok(()) };
            // names are kept byte-exact (invalid UTF-8 as private-use characters), never lossily
            let mut names: Vec<String> = rd.filter_map(|e| e.ok()).map(|e| proto::enc_bytes(std::os::unix::ffi::OsStrExt::as_bytes(e.file_name().as_os_str()))).collect();
            names.sort();
            for n in names {
                let r = if rel.is_empty() { n } else { format!("{}/{}", rel, n) };
                walk(base, &r, m, base_dev)?;
            }
        }
        Ok(())
    }
    walk(base, "", &mut m, base_dev)?;
    Ok(m)
}

/// Canonical form of a snapshot independent of inode numbers: hardlink groups are expressed as the smallest path of the group.
pub fn canon(s: &Snap) -> BTreeMap<String, String> {
    let mut first: BTreeMap<(u64, u64), String> = BTreeMap::new();
    for (p, n) in s { first.entry((n.dev, n.ino)).or_insert_with(|| p.clone()); }
    let mut out = BTreeMap::new();
    for (p, n) in s {
        let grp = &first[&(n.dev, n.ino)];
        let dirnl = if n.typ == "dir" { 0 } else { n.nlink };
        out.insert(p.clone(), format!("{} {:o} u{} g{} nl{} sz{} {:?} grp={}", n.typ, n.perm, n.uid, n.gid, dirnl, n.size, n.body, if grp == p { "" } else { grp }));
    }
    out
}

#[derive(Debug, Default, Clone, Serialize, Deserialize)]
pub struct Diff {
    pub added: Vec<String>,
    pub removed: Vec<String>,
    pub changed: Vec<String>,
}

impl Diff {
    pub fn is_empty(&self) -> bool { self.added.is_empty() && self.removed.is_empty() && self.changed.is_empty() }
    pub fn text(&self) -> String {
        format!("+{:?} -{:?} ~{:?}", self.added, self.removed, self.changed)
    }
}

/// Difference by path, comparing type/perm/owner/size/body/inode identity (an entry replaced by a new inode counts as changed).
pub fn diff(a: &Snap, b: &Snap) -> Diff {
    let mut d = Diff::default();
    for (p, n) in a {
        match b.get(p) {
            None => d.removed.push(p.clone()),
            Some(m) => {
                let same = n.typ == m.typ && n.perm == m.perm && n.uid == m.uid && n.gid == m.gid && n.body == m.body && n.ino == m.ino && n.dev == m.dev
                    && (n.typ == "dir" || (n.size == m.size && n.nlink == m.nlink));
                if !same { d.changed.push(p.clone()); }
            }
        }
    }
    for p in b.keys() { if !a.contains_key(p) { d.added.push(p.clone()); } }
    d
}

/// All inodes (dev, ino) present in a snapshot.
pub fn inodes(s: &Snap) -> std::collections::BTreeSet<(u64, u64)> {
    s.values().map(|n| (n.dev, n.ino)).collect()
}

/// Map inode -> smallest path (label) for readable observations.
pub fn labels(s: &Snap, prefix: &str) -> BTreeMap<(u64, u64), String> {
    let mut m = BTreeMap::new();
    for (p, n) in s { m.entry((n.dev, n.ino)).or_insert_with(|| format!("{}{}", prefix, if p.is_empty() { "." } else { p })); }
    m
}
