//! C15: the emulated resolver enforces fs.protected_symlinks exactly like the kernel. All combinations of directory mode,
//! directory owner, link owner, caller identity, link position and sysctl value; oracle = the kernel backend as the same user.

use crate::ev::*;
use crate::gen::*;
use crate::sys::*;
use crate::wk::Wk;
use proto::*;
use serde_json::{json, Value};

pub const SYSCTL: &str = "/proc/sys/fs/protected_symlinks";

const IDENTITIES: [(&str, u32, bool); 5] = [("root", 0, false), ("root-nocaps", 0, true), ("uid1000", 1000, false), ("uid1001", 1001, false), ("root-then-seteuid1000", 0, false)];
// 1773: sticky and world-writable without o+r (the rule is about S_IWOTH alone; group bits stay open so that plain DAC never interferes)
const DIR_MODES: [u32; 7] = [0o755, 0o777, 0o1755, 0o1777, 0o1775, 0o1757, 0o1773];
const OWNERS: [u32; 3] = [0, 1000, 1001];

/// items 0..5 run with the sysctl at 1, items 5..10 with 0 (the parent switches the global value between the two phases)
/// items 10..12: sysctl 1 again, but the caller finds itself with a `subset=pid` /proc and without the privilege to mount its own:
/// the library cannot read the sysctl. Whatever it does then, it must not follow a link the kernel refuses (safety half only).
pub fn n_items(_tier: &str) -> usize { 12 }
pub fn sysctl_for(idx: usize) -> u32 { if idx < 5 || idx >= 10 { 1 } else { 0 } }

pub fn read_sysctl() -> Option<u32> { std::fs::read_to_string(SYSCTL).ok().and_then(|s| s.trim().parse().ok()) }
pub fn write_sysctl(v: u32) -> MResult<()> { std::fs::write(SYSCTL, format!("{}\n", v)).map_err(|e| Mach(format!("cannot write {}: {}", SYSCTL, e))) }

fn chown(p: &str, uid: u32) -> MResult<()> {
    let c = cs(p);
    if unsafe { libc::lchown(c.as_ptr(), uid, uid) } != 0 { return mach(format!("lchown {}: {}", p, errno())); }
    Ok(())
}

pub fn run_item(_tier: &str, idx: usize, only: Option<&Value>) -> MResult<ItemResult> {
    let mut res = ItemResult::default();
    let want_sysctl = sysctl_for(idx);
    let unreadable = idx >= 10;
    let (iname, uid, nocaps) = if unreadable { [("uid1000+subset=pid", 1000, false), ("root-nocaps+subset=pid", 0, true)][idx - 10] } else { IDENTITIES[idx % 5] };
    if read_sysctl() != Some(want_sysctl) { return mach(format!("fs.protected_symlinks is {:?}, this item needs {} (the parent sets it)", read_sysctl(), want_sysctl)); }
    if unreadable { enter_jail_opts(Some("subset=pid"))?; } else { enter_jail()?; }
    let root_out = out(ROOT_IN);
    // fresh workers: the library caches the sysctl per process
    let setup = |deny: Vec<String>| Setup { jail: JAIL.into(), deny, uid, gid: uid, drop_caps: nocaps, ..Default::default() };
    let mut k = Wk::spawn("K", &setup(vec![]))?;
    let mut e = Wk::spawn("E", &setup(vec!["openat2".into()]))?;
    if iname == "root-then-seteuid1000" {
        // the process follows a symlink as root first (whatever the library caches about the caller is cached now),
        // then switches its effective uid; every later lookup must be judged for the new uid
        clear_dir(&root_out)?;
        std::fs::write(format!("{}/t", root_out), b"t").map_err(|e| Mach(e.to_string()))?;
        std::os::unix::fs::symlink("t", format!("{}/first", root_out)).map_err(|e| Mach(e.to_string()))?;
        for w in [&mut k, &mut e] {
            let o = w.one(Op::new("resolve").root(ROOT_IN).path("first"))?;
            if !o.ok { return mach("priming lookup failed"); }
            w.one(Op::new("seteuid").num(1000))?;
        }
    }
    for (mi, mode) in DIR_MODES.iter().enumerate() {
        for downer in OWNERS {
            for lowner in OWNERS {
                clear_dir(&root_out)?;
                // root/t (file), root/td/f (dir+file), root/sd (the directory under test) with sd/lnk -> ../t, sd/dl -> ../td
                let mk = |p: &str| format!("{}/{}", root_out, p);
                std::fs::write(mk("t"), b"t").map_err(|e| Mach(e.to_string()))?;
                std::fs::create_dir(mk("td")).map_err(|e| Mach(e.to_string()))?;
                std::fs::write(mk("td/f"), b"f").map_err(|e| Mach(e.to_string()))?;
                std::fs::create_dir(mk("sd")).map_err(|e| Mach(e.to_string()))?;
                std::os::unix::fs::symlink("../t", mk("sd/lnk")).map_err(|e| Mach(e.to_string()))?;
                std::os::unix::fs::symlink("../td", mk("sd/dl")).map_err(|e| Mach(e.to_string()))?;
                // nested: a link to the link inside the same directory, and a link in a harmless directory whose body ends on the link
                std::os::unix::fs::symlink("lnk", mk("sd/ll")).map_err(|e| Mach(e.to_string()))?;
                std::os::unix::fs::symlink("../sd/lnk", mk("td/x")).map_err(|e| Mach(e.to_string()))?;
                std::os::unix::fs::symlink("../sd/dl/f", mk("td/y")).map_err(|e| Mach(e.to_string()))?;
                chown(&mk("sd/ll"), lowner)?;
                for p in ["t", "td", "td/f"] { let c = cs(&mk(p)); unsafe { libc::chmod(c.as_ptr(), if p == "td" { 0o755 } else { 0o644 }) }; }
                chown(&mk("sd/lnk"), lowner)?;
                chown(&mk("sd/dl"), lowner)?;
                chown(&mk("sd"), downer)?;
                { let c = cs(&mk("sd")); if unsafe { libc::chmod(c.as_ptr(), *mode) } != 0 { return mach("chmod"); } }
                let ops: Vec<(&str, Op)> = vec![
                    ("trailing", Op::new("resolve").root(ROOT_IN).path("sd/lnk")),
                    ("trailing", Op::new("open_subpath").root(ROOT_IN).path("sd/lnk").flags(O_RDONLY)),
                    ("intermediate", Op::new("resolve").root(ROOT_IN).path("sd/dl/f")),
                    ("intermediate", Op::new("open_subpath").root(ROOT_IN).path("sd/dl/f").flags(O_RDONLY)),
                    ("nested-trailing", Op::new("resolve").root(ROOT_IN).path("sd/ll")),
                    ("nested-trailing", Op::new("resolve").root(ROOT_IN).path("td/x")),
                    ("nested-intermediate", Op::new("open_subpath").root(ROOT_IN).path("td/y").flags(O_RDONLY)),
                    // a link followed by nothing but slashes is still the trailing component for the kernel
                    ("trailing-slash", Op::new("resolve").root(ROOT_IN).path("sd/dl/")),
                    ("trailing-slash", Op::new("open_subpath").root(ROOT_IN).path("sd/dl//").flags(O_RDONLY | O_DIRECTORY)),
                    ("trailing-slash", Op::new("resolve").root(ROOT_IN).path("sd/dl/.")),
                    ("not-followed", Op::new("resolve_nofollow").root(ROOT_IN).path("sd/lnk")),
                    ("not-followed", Op::new("readlink").root(ROOT_IN).path("sd/dl")),
                ];
                for (pos, op) in ops {
                    if let Some(o) = only { let want: Op = serde_json::from_value(o["op"].clone()).map_err(|e| Mach(e.to_string()))?; if want != op || o["mode_index"].as_u64() != Some(mi as u64) || o["dir_owner"].as_u64() != Some(downer as u64) || o["link_owner"].as_u64() != Some(lowner as u64) { continue; } }
                    let mut ok_ = k.one(op.clone())?;
                    let oe = e.one(op.clone())?;
                    // the kernel backend may answer "safety violation" (EXDEV: openat2 aborted 16 times by renames elsewhere on the machine)
                    let mut tries = 0;
                    while !ok_.ok && matches!(ok_.errno, Some(libc::EXDEV) | Some(libc::EAGAIN)) && tries < 30 { tries += 1; ok_ = k.one(op.clone())?; }
                    if !ok_.ok && matches!(ok_.errno, Some(libc::EXDEV) | Some(libc::EAGAIN)) { res.count("transient_undecided", 1); continue; }
                    res.evaluations += 1;
                    let cls = |o: &Obs| if o.panic.is_some() { "PANIC".to_string() } else if o.ok { "ok".to_string() } else { errname(o.errno.unwrap_or(-1)) };
                    let refused = cls(&ok_) == "EACCES";
                    if refused || (want_sysctl == 1 && mode & 0o1002 == 0o1002) { res.nontrivial += 1; }
                    res.outcome(format!("sysctl{}:{}:{}:K={}", want_sysctl, iname, pos, cls(&ok_)));
                    let desc = format!("sysctl={} caller={} dir(mode {:o}, owner {}) link owner {} [{}] {}", want_sysctl, iname, mode, downer, lowner, pos, op.brief());
                    let replay = json!({"engine": "c15", "item": idx, "mode_index": mi, "dir_owner": downer, "link_owner": lowner, "op": op});
                    if unreadable {
                        // the emulated resolver cannot know the sysctl here: any error is acceptable, following a refused link is not
                        res.outcome(format!("unreadable:{}:{}:K={}:E={}", iname, pos, cls(&ok_), cls(&oe)));
                        if oe.panic.is_some() { res.violate(format!("panic-sysctl-unreadable:{}", pos), format!("{}: emulated backend panicked: {:?}", desc, oe.panic), replay); }
                        else if refused && oe.ok { res.violate(format!("emulated-allows-what-kernel-refuses:sysctl-unreadable:{}", pos), format!("{}: the kernel refuses (EACCES); the emulated backend, unable to read the sysctl, followed the link", desc), replay); }
                    } else if cls(&ok_) != cls(&oe) {
                        let key = if refused { "emulated-allows-what-kernel-refuses" } else if cls(&oe) == "EACCES" { "emulated-refuses-what-kernel-allows" } else { "other-divergence" };
                        res.violate(format!("{}:{}", key, pos), format!("{}: kernel backend {} , emulated backend {} ({})", desc, cls(&ok_), cls(&oe), oe.msg.clone().unwrap_or_default()), replay);
                    } else if want_sysctl == 0 && refused {
                        res.violate("refused-with-sysctl-off".to_string(), format!("{}: refused although the sysctl is off", desc), replay);
                    }
                    if res.samples.len() < 3 && refused { res.sample(json!({"case": desc, "K": cls(&ok_), "E": cls(&oe)})); }
                }
            }
        }
    }
    Ok(res)
}

pub fn report(_tier: &str) -> Report {
    Report {
        level: "exploration",
        rule: format!("all {} combinations: sysctl {{1,0}} x caller {{root, root without any capability, uid 1000, uid 1001, root that switches to euid 1000 after its first symlink lookup}} x directory mode {:?} x directory owner {{0,1000,1001}} x link owner {{0,1000,1001}} x {{trailing link (resolve, open), intermediate link (resolve, open), link reached as the last component of another link's body, link not followed (resolve_nofollow, readlink)}}; the emulated backend must answer EACCES exactly where the kernel backend (same user, same tree) does; fresh worker processes per sysctl value; non-trivial = cases in a sticky world-writable directory or refused by the kernel; plus 2 x {} cases with sysctl 1 for callers {{uid 1000, root without capabilities}} on a subset=pid /proc (sysctl unreadable): any error is accepted there, following a link the kernel refuses is not", 2 * 5 * DIR_MODES.len() * 9 * 12, DIR_MODES.iter().map(|m| format!("{:o}", m)).collect::<Vec<_>>(), DIR_MODES.len() * 9 * 12),
        assumptions: vec!["fs.protected_symlinks is writable (root, global sysctl); the check restores the original value on exit".into(), "the kernel backend (openat2) is the reference for the kernel's rule".into()],
        exhaustive: true,
        extra: json!({}),
    }
}
