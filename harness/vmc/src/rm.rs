//! Reference model of kernel in-root resolution (openat2 RESOLVE_IN_ROOT|RESOLVE_NO_MAGICLINKS) over an in-memory tree.
//! Boring on purpose; every answer is compared with the running kernel on every enumerated case (mismatch = exit 2).

use crate::tree::{Kind, TreeSpec};
use std::collections::BTreeMap;

pub const ENOENT: i32 = libc::ENOENT;
pub const ENOTDIR: i32 = libc::ENOTDIR;
pub const ELOOP: i32 = libc::ELOOP;
pub const ENAMETOOLONG: i32 = libc::ENAMETOOLONG;

#[derive(Clone, Debug, PartialEq, Eq)]
pub enum N {
    Dir,
    Leaf, // file, fifo, device: anything that is neither a directory nor a symlink
    Link(String),
}

#[derive(Clone, Debug, Default)]
pub struct Model {
    /// canonical path ("" = root, "a", "a/b") -> node. Hard links map to the target's canonical path via `alias`.
    pub nodes: BTreeMap<String, N>,
    pub alias: BTreeMap<String, String>,
}

pub struct WalkStats {
    pub steps: u64,
    pub follows: u64,
}

impl Model {
    pub fn from_spec(t: &TreeSpec) -> Model {
        let mut m = Model::default();
        m.nodes.insert(String::new(), N::Dir);
        for (p, k) in &t.0 {
            let n = match k {
                Kind::Dir | Kind::DirMode(_) => N::Dir,
                Kind::Link(b) => N::Link(b.clone()),
                Kind::Hard(t) => { m.alias.insert(p.clone(), t.clone()); m.nodes.get(t).cloned().unwrap_or(N::Leaf) }
                _ => N::Leaf,
            };
            m.nodes.insert(p.clone(), n);
        }
        m
    }

    fn parent(p: &str) -> String {
        match p.rfind('/') { Some(i) => p[..i].to_string(), None => String::new() }
    }

    fn child(p: &str, c: &str) -> String {
        if p.is_empty() { c.to_string() } else { format!("{}/{}", p, c) }
    }

    /// Returns the canonical path of the resulting node. `nofollow`: O_NOFOLLOW (with O_PATH) on the final component.
    pub fn resolve(&self, path: &str, nofollow: bool, no_symlinks: bool, stats: &mut WalkStats) -> Result<String, i32> {
        if path.is_empty() { return Err(ENOENT); }
        if path.len() >= 4096 { return Err(ENAMETOOLONG); }
        // work list of (component, is_last_of_its_string, string_had_trailing_slash)
        // we process strings as a stack of remaining component lists, like the kernel's nameidata stack
        let mut cur = String::new(); // root
        let mut stack: Vec<Vec<String>> = Vec::new();
        let mut trailing: Vec<bool> = Vec::new();
        let split = |s: &str| -> (Vec<String>, bool) {
            let comps: Vec<String> = s.split('/').filter(|c| !c.is_empty()).map(|c| c.to_string()).collect();
            let tr = s.ends_with('/') && !comps.is_empty();
            let mut v = comps; v.reverse(); (v, tr)
        };
        let (c0, t0) = split(path);
        stack.push(c0);
        trailing.push(t0);
        let mut follows = 0u64;
        loop {
            // pop exhausted strings
            while let Some(top) = stack.last() {
                if top.is_empty() {
                    stack.pop();
                    let tr = trailing.pop().unwrap();
                    // a string that ended in '/' (the path itself or a link body) demands that what it named is a directory
                    if tr { match self.nodes.get(&cur) { Some(N::Dir) => {}, _ => return Err(ENOTDIR) } }
                } else { break; }
            }
            if stack.is_empty() { break; }
            let comp = stack.last_mut().unwrap().pop().unwrap();
            stats.steps += 1;
            if comp.len() > 255 { return Err(ENAMETOOLONG); }
            // is anything left after this component (in this or outer strings)?
            let more = stack.iter().any(|s| !s.is_empty());
            let this_trailing = stack.last().map(|s| s.is_empty()).unwrap_or(false) && *trailing.last().unwrap();
            // outer strings' pending trailing slashes also force directory+follow once we are at the very end
            let outer_trailing = trailing.iter().enumerate().any(|(i, t)| *t && stack[i].is_empty());
            // current must be a directory to look anything up in it
            match self.nodes.get(&cur) { Some(N::Dir) => {}, _ => return Err(ENOTDIR) }
            if comp == "." { continue; }
            if comp == ".." { if !cur.is_empty() { cur = Self::parent(&cur); } continue; }
            let next = Self::child(&cur, &comp);
            let next = self.alias.get(&next).cloned().unwrap_or(next);
            let node = match self.nodes.get(&next) { Some(n) => n.clone(), None => return Err(ENOENT) };
            match node {
                N::Link(body) => {
                    let is_final = !more;
                    let must_follow = !is_final || this_trailing || outer_trailing || !nofollow;
                    if !must_follow { cur = next; continue; }
                    if no_symlinks { return Err(ELOOP); }
                    follows += 1;
                    stats.follows += 1;
                    if follows > 40 { return Err(ELOOP); }
                    if body.is_empty() { return Err(ENOENT); }
                    if body.starts_with('/') { cur = String::new(); }
                    let (c, t) = split(&body);
                    stack.push(c);
                    trailing.push(t);
                    // an absolute body consisting only of slashes leaves cur at the root
                }
                N::Dir => { cur = next; }
                N::Leaf => {
                    if more || this_trailing || outer_trailing { return Err(ENOTDIR); }
                    cur = next;
                }
            }
        }
        Ok(cur)
    }
}
