//! E1: stateless model checking at the syscall boundary. One `execute` = one complete run of one or more traced
//! one-shot workers under a choice sequence: attacker mutations, injected errnos, or context switches.

use crate::pt::*;
use crate::sys::*;
use crate::tree::*;
use crate::xplore::Chooser;
use proto::*;
use std::collections::BTreeSet;

#[derive(Clone, Debug)]
pub enum MutKind {
    /// renameat2(RENAME_EXCHANGE)
    Xchg(String, String),
    /// rename a -> b (b must not exist)
    Move(String, String),
    /// unlink or rmdir
    Remove(String),
    /// the attacker creates a directory inside the tree (a name the walked path expects to be missing)
    Mkdir(String),
    /// over-mount an entry of the jail's /proc ({PID} = the traced worker); index into mountmc kinds
    Mount(crate::mountmc::MKind, String),
    Umount(String),
    /// exchange a and b only while the witness path exists (a one-shot exchange: the witness disappears with it)
    XchgIf(String, String, String),
}

/// Paths are absolute, outside view (inside /verif/.jail).
#[derive(Clone, Debug)]
pub struct Mutation {
    pub name: String,
    pub kind: MutKind,
}

impl Mutation {
    pub fn xchg(a: &str, b: &str) -> Mutation { Mutation { name: format!("xchg({},{})", short(a), short(b)), kind: MutKind::Xchg(a.into(), b.into()) } }
    pub fn mv(a: &str, b: &str) -> Mutation { Mutation { name: format!("move({}->{})", short(a), short(b)), kind: MutKind::Move(a.into(), b.into()) } }
    pub fn mkdir(a: &str) -> Mutation { Mutation { name: format!("mkdir({})", short(a)), kind: MutKind::Mkdir(a.into()) } }
    pub fn rm(a: &str) -> Mutation { Mutation { name: format!("remove({})", short(a)), kind: MutKind::Remove(a.into()) } }
    pub fn mount(kind: crate::mountmc::MKind, rel: &str) -> Mutation { Mutation { name: format!("mount({:?} over {})", kind, rel), kind: MutKind::Mount(kind, rel.into()) } }
    pub fn umount(rel: &str) -> Mutation { Mutation { name: format!("umount({})", rel), kind: MutKind::Umount(rel.into()) } }
    pub fn enabled_in(&self, mounted: &BTreeSet<String>, pid: i32) -> bool {
        match &self.kind {
            MutKind::Mount(_, rel) => !mounted.contains(rel) && lstat(&format!("{}/{}", out("/proc"), rel.replace("{PID}", &pid.to_string()))).is_some(),
            MutKind::Umount(rel) => mounted.contains(rel),
            _ => self.enabled(),
        }
    }
    pub fn apply_in(&self, mounted: &mut BTreeSet<String>, pid: i32) -> MResult<()> {
        let abs = |rel: &str| format!("{}/{}", out("/proc"), rel.replace("{PID}", &pid.to_string()));
        match &self.kind {
            MutKind::Mount(k, rel) => { crate::mountmc::mount_one(k, &abs(rel), 1).map_err(|e| Mach(format!("racing mount {} failed: {}", self.name, errname(e))))?; mounted.insert(rel.clone()); Ok(()) }
            MutKind::Umount(rel) => { crate::mountmc::umount_one(&abs(rel)).map_err(|e| Mach(format!("racing umount {} failed: {}", self.name, errname(e))))?; mounted.remove(rel); Ok(()) }
            _ => self.apply(),
        }
    }
    pub fn enabled(&self) -> bool {
        match &self.kind {
            MutKind::Mount(..) | MutKind::Umount(..) => false,
            // the attacker only ever creates entries in directories that are inside the root *right now* (no symlink on the way):
            // whatever it creates is then inside by construction, and nothing it does can be mistaken for the library's doing
            MutKind::Mkdir(a) => lstat(a).is_none() && std::path::Path::new(a).parent().map(|p| lstat(p.to_str().unwrap_or("")).map(|s| s.is_dir()).unwrap_or(false) && std::fs::canonicalize(p).map(|c| c == p).unwrap_or(false)).unwrap_or(false),
            MutKind::Xchg(a, b) => lstat(a).is_some() && lstat(b).is_some(),
            MutKind::XchgIf(a, b, w) => lstat(a).is_some() && lstat(b).is_some() && lstat(w).is_some(),
            MutKind::Move(a, b) => lstat(a).is_some() && lstat(b).is_none() && std::path::Path::new(b).parent().map(|p| p.is_dir()).unwrap_or(false),
            MutKind::Remove(a) => match lstat(a) { Some(st) => !st.is_dir() || std::fs::read_dir(a).map(|mut d| d.next().is_none()).unwrap_or(false), None => false },
        }
    }
    pub fn apply(&self) -> MResult<()> {
        let r = match &self.kind {
            MutKind::Mount(..) | MutKind::Umount(..) => return mach("mount mutations need apply_in"),
            MutKind::Mkdir(a) => { let c = cs(a); if unsafe { libc::mkdir(c.as_ptr(), 0o755) } == 0 { Ok(()) } else { Err(errno()) } }
            MutKind::Xchg(a, b) | MutKind::XchgIf(a, b, _) => renameat2(a, b, libc::RENAME_EXCHANGE),
            MutKind::Move(a, b) => renameat2(a, b, libc::RENAME_NOREPLACE),
            MutKind::Remove(a) => {
                let c = cs(a);
                let st = lstat(a).ok_or_else(|| Mach("remove: gone".into()))?;
                let r = unsafe { if st.is_dir() { libc::rmdir(c.as_ptr()) } else { libc::unlink(c.as_ptr()) } };
                if r == 0 { Ok(()) } else { Err(errno()) }
            }
        };
        r.map_err(|e| Mach(format!("attacker mutation {} failed: {}", self.name, errname(e))))
    }
}

fn short(p: &str) -> String {
    p.strip_prefix("/verif/.jail/w/outer/parent/").unwrap_or(p).to_string()
}

#[derive(Clone, Debug)]
pub struct FaultCfg {
    /// only syscalls that take a path or create descriptors (quick tier) or every syscall (thorough)
    pub all_syscalls: bool,
    /// how many errnos of each class catalogue to use (quick: 3)
    pub per_class: usize,
    /// special sequence: from the chosen index on, EAGAIN for the next `n` openat2 calls
    pub eagain_runs: Vec<u32>,
    /// special sequence: from the chosen index on, every descriptor-creating call fails with EMFILE
    pub exhaustion: bool,
    /// environment answers instead of the class catalogue: only these syscalls (openat only for "/proc"), these errnos
    pub custom: Option<(Vec<String>, Vec<i32>)>,
}

#[derive(Clone, Debug)]
pub enum Mode {
    Trace,
    Attack(Vec<Mutation>),
    Fault(FaultCfg),
    Sched,
}

pub struct ExecCfg {
    /// end the execution with a NOISE error as soon as the kernel answers EAGAIN to an openat2 on its own
    pub abort_on_noise: bool,
    pub specs: Vec<OneShot>,
    pub mode: Mode,
    pub root_out: String,
    pub horizon: u64,
    pub timeout_s: u32,
    /// attacker choice points also before path-taking syscalls on procfs descriptors (racing mounts, C06)
    pub attack_procfs: bool,
    /// part of the scenario, not explored: when the traced worker is about to issue the first syscall with this name and path,
    /// the mutation is applied (e.g. an over-mount placed inside a documented race window)
    pub scripted: Option<(String, String, Mutation)>,
}

#[derive(Default, Debug)]
pub struct ExecOut {
    /// per worker: observations (warm-up ops first, the traced op last); None if the worker died
    pub obs: Vec<Option<Vec<Obs>>>,
    pub killed: Vec<Option<i32>>,
    pub exit: Vec<Option<i32>>,
    pub events: Vec<Ev>,
    pub applied: Vec<(usize, String)>,
    pub faults: Vec<(usize, String)>,
    pub ever_inside: BTreeSet<(u64, u64)>,
    /// never-inside objects the attacker has placed as direct entries into a directory that was inside (wherever that directory
    /// sits now): as entries of such a directory they may be unlinked / replaced / truncated by an operation on that directory
    pub exposed: BTreeSet<(u64, u64)>,
    pub horizon_hit: bool,
    pub timeout: bool,
    pub switches: u32,
    pub pids: Vec<i32>,
}

impl ExecOut {
    pub fn final_obs(&self, w: usize) -> Option<&Obs> { self.obs.get(w).and_then(|o| o.as_ref()).and_then(|v| v.last()) }
}

/// fault catalogue per syscall class
pub fn catalogue(ev: &Ev) -> Vec<i32> {
    use libc::*;
    match ev.name.as_str() {
        "openat" | "open" | "dup" | "dup2" | "dup3" => vec![EMFILE, ENOMEM, EACCES, ENFILE, EINTR, ELOOP, ENOENT],
        "fcntl" => if ev.args[1] as i32 == F_DUPFD_CLOEXEC || ev.args[1] as i32 == F_DUPFD { vec![EMFILE, ENOMEM, EINVAL] } else { vec![] },
        "openat2" => vec![EAGAIN, ENOSYS, EMFILE, E2BIG, EXDEV, ENOMEM, EACCES],
        "newfstatat" | "fstat" | "statx" | "stat" | "lstat" | "fstatfs" | "statfs" => vec![ENOMEM, EACCES, EIO, ENOSYS, EINVAL],
        "readlinkat" | "readlink" => vec![ENOMEM, EIO, EINVAL, EACCES],
        "mkdirat" | "mknodat" | "symlinkat" | "linkat" | "renameat" | "renameat2" | "unlinkat" => vec![ENOSPC, EACCES, EIO, EROFS, EDQUOT, EEXIST, ENOENT],
        "fsopen" | "fsconfig" | "fsmount" | "open_tree" => vec![EPERM, ENOSYS, EBUSY, ENOMEM],
        "getdents64" => vec![EIO, ENOENT, ENOMEM],
        "read" | "pread64" => vec![EIO, EINTR, ENOMEM],
        "faccessat" | "faccessat2" | "access" => vec![EACCES, ENOMEM, EIO],
        "close" => vec![],
        _ => vec![],
    }
}

fn creates_fd(name: &str, ev: &Ev) -> bool {
    matches!(name, "openat" | "open" | "openat2" | "dup" | "dup2" | "dup3" | "fsopen" | "fsmount" | "open_tree")
        || (name == "fcntl" && (ev.args[1] as i32 == libc::F_DUPFD_CLOEXEC || ev.args[1] as i32 == libc::F_DUPFD))
}

pub fn walk_inodes(root_out: &str) -> BTreeSet<(u64, u64)> {
    snapshot(root_out).map(|s| inodes(&s)).unwrap_or_default()
}

fn is_tree_rel(ev: &Ev, tree_dev: u64) -> bool {
    // a syscall reads or writes the tree's namespace if it takes a path relative to a descriptor on the tree's filesystem,
    // lists such a directory, or reads an fd magic-link on procfs (how check_current reads the tree).
    let on_tree = |id: &Option<FdId>| id.as_ref().map(|i| i.dev == tree_dev && i.fstype == TMPFS_MAGIC).unwrap_or(false);
    let statlike = matches!(ev.name.as_str(), "newfstatat" | "statx") && ev.path.as_deref() == Some("");
    if statlike { return false; }
    match ev.name.as_str() {
        "close" | "fcntl" | "fstat" | "fstatfs" | "dup" | "dup2" | "dup3" | "read" | "write" | "lseek" | "ioctl" => false,
        "getdents64" => on_tree(&ev.fdid),
        "readlinkat" => {
            if on_tree(&ev.fdid) { return true; }
            // magic-link read: readlinkat(fd-of-a-procfs-symlink, "") where the symlink is <...>/fd/<n>
            ev.fdid.as_ref().map(|i| i.fstype == PROC_MAGIC && i.mode & libc::S_IFMT == libc::S_IFLNK && {
                let mut it = i.link.rsplit('/'); let last = it.next().unwrap_or(""); let prev = it.next().unwrap_or("");
                prev == "fd" && !last.is_empty() && last.chars().all(|c| c.is_ascii_digit())
            }).unwrap_or(false)
        }
        _ => ev.path.is_some() && (on_tree(&ev.fdid) || on_tree(&ev.fdid2) || ev.fd == Some(libc::AT_FDCWD) && ev.path.as_deref().map(|p| p.starts_with("/w/")).unwrap_or(false)),
    }
}

/// Run one execution. All nondeterminism of the run is decided by `ch`.
pub fn execute(cfg: &ExecCfg, ch: &mut Chooser) -> MResult<ExecOut> {
    let n = cfg.specs.len();
    let mut out = ExecOut::default();
    let tree_dev = lstat(&cfg.root_out).ok_or_else(|| Mach("root vanished".into()))?.dev;
    // "the root" is the directory the library holds, whatever it is called later (an attacker that may rename it included):
    // everything is computed from a descriptor of that inode, never from its name
    let root_pin = open_path(&cfg.root_out)?;
    let root_ref = format!("/proc/self/fd/{}/.", std::os::unix::io::AsRawFd::as_raw_fd(&root_pin));
    out.ever_inside = walk_inodes(&root_ref);
    // everything that exists in the world before the operation starts: none of it can be "created by the library"
    let preexisting = walk_inodes(&crate::sys::out("/w"));
    unsafe { libc::alarm(cfg.timeout_s) };
    let mut ts: Vec<Tracee> = Vec::new();
    for s in &cfg.specs { ts.push(Tracee::spawn(s)?); }
    out.pids = ts.iter().map(|t| t.pid).collect();
    // state per worker: None = not yet at a decision point; Some(ev) = parked at the entry stop of a tree-relevant syscall
    let mut parked: Vec<Option<Ev>> = vec![None; n];
    let mut done: Vec<bool> = ts.iter().map(|t| t.finished).collect();
    let mut in_window: Vec<bool> = vec![true; n];
    let mut total: u64 = 0;
    let mut cur = 0usize;
    // fault-mode state
    let mut eagain_left: u32 = 0;
    let mut exhaust = false;
    let mut mounted: BTreeSet<String> = BTreeSet::new();
    let mut scripted_done = false;

    // advance worker w until it is parked at a tree-relevant syscall entry (Sched/Attack) or has left the window
    // returns Ok(()) normally
    macro_rules! run_worker {
        ($w:expr, $stop_at_tree:expr) => {{
            let w: usize = $w;
            loop {
                if done[w] || !in_window[w] { break; }
                // complete a parked syscall first
                let mut ev = match parked[w].take() {
                    Some(ev) => ev,
                    None => {
                        match ts[w].step() {
                            Err(Mach(m)) if m == "TIMEOUT" => { out.timeout = true; for t in ts.iter_mut() { t.kill(); } done.iter_mut().for_each(|d| *d = true); break; }
                            Err(e) => return Err(e),
                            Ok(Stop::Marker) => { in_window[w] = false; break; }
                            Ok(Stop::Exited(_)) | Ok(Stop::Killed(_)) => { done[w] = true; break; }
                            Ok(Stop::Exit) => return mach("unexpected syscall-exit stop"),
                            Ok(Stop::Entry) => {}
                        }
                        let mut ev = ts[w].decode_entry(w)?;
                        ev.tree_rel = is_tree_rel(&ev, tree_dev);
                        if cfg.attack_procfs && ev.path.is_some() && !matches!(ev.name.as_str(), "fsopen" | "fsconfig") && (ev.fdid.as_ref().map(|i| i.fstype == PROC_MAGIC).unwrap_or(false) || ev.path.as_deref() == Some("/proc")) { ev.tree_rel = true; }
                        if $stop_at_tree && ev.tree_rel { parked[w] = Some(ev); break; }
                        ev
                    }
                };
                total += 1;
                if total > cfg.horizon { out.horizon_hit = true; for t in ts.iter_mut() { t.kill(); } done.iter_mut().for_each(|d| *d = true); break; }
                // ---- choice at this syscall (attacker / fault); scheduler choices are made by the caller
                let mut inject: Option<i32> = None;
                // the kernel answers EAGAIN to openat2 by itself whenever anything on the machine renames or mounts during
                // the call; the library's immediate retry of the identical call is not a new choice point
                // (between the two calls the library only builds the error value: gettid, stat/readlink of its own fd links)
                let spurious_retry = ev.name == "openat2" && out.events.iter().rev().filter(|p| p.w == w).find(|p| p.tree_rel || p.name == "openat2")
                    .map(|p| p.name == "openat2" && p.injected.is_none() && p.rval == -(libc::EAGAIN as i64) && p.path == ev.path).unwrap_or(false);
                if let Some((n, p, m)) = &cfg.scripted {
                    if !scripted_done && ev.name == *n && ev.path.as_deref() == Some(p.as_str()) {
                        m.apply_in(&mut mounted, ts[w].pid)?;
                        out.applied.push((out.events.len(), format!("scripted:{}", m.name)));
                        scripted_done = true;
                    }
                }
                match &cfg.mode {
                    _ if spurious_retry => {}
                    Mode::Attack(muts) if ev.tree_rel => {
                        // the attacker may do several things between two consecutive system calls of the library: after a mutation
                        // the same boundary is a choice point again (default: nothing more), until the deviation bound ends it
                        let mut j = 0;
                        loop {
                            let enabled: Vec<&Mutation> = muts.iter().filter(|m| m.enabled_in(&mounted, ts[w].pid)).collect();
                            let label = if j == 0 { format!("atk@{}", ev.sig()) } else { format!("atk+{}@{}", j, ev.sig()) };
                            let k = ch.choose(&label, 1 + enabled.len() as u32, 1)?;
                            if k == 0 { break; }
                            let m = enabled[(k - 1) as usize];
                            m.apply_in(&mut mounted, ts[w].pid)?;
                            out.applied.push((out.events.len(), m.name.clone()));
                            out.ever_inside.extend(walk_inodes(&root_ref));
                            if let Ok(all) = snapshot(&crate::sys::out("/w")) {
                                for (p, n) in &all {
                                    let parent = match p.rfind('/') { Some(i) => &p[..i], None => "" };
                                    if p.is_empty() { continue; }
                                    if let Some(pn) = all.get(parent) { if out.ever_inside.contains(&(pn.dev, pn.ino)) && !out.ever_inside.contains(&(n.dev, n.ino)) { out.exposed.insert((n.dev, n.ino)); } }
                                }
                            }
                            j += 1;
                            if j >= 4 { break; }
                        }
                    }
                    Mode::Fault(fc) => {
                        let mut cat = catalogue(&ev);
                        let mut eligible = fc.all_syscalls || ev.path.is_some() || creates_fd(&ev.name, &ev) || ev.name == "getdents64";
                        if let Some((names, errs)) = &fc.custom {
                            eligible = names.contains(&ev.name) && (ev.name != "openat" || ev.path.as_deref() == Some("/proc"));
                            cat = errs.clone();
                        }
                        if eagain_left > 0 && ev.name == "openat2" { inject = Some(libc::EAGAIN); eagain_left -= 1; }
                        else if exhaust && creates_fd(&ev.name, &ev) { inject = Some(libc::EMFILE); }
                        else if eligible && !cat.is_empty() && eagain_left == 0 && !exhaust {
                            let mut alts: Vec<String> = cat.iter().take(fc.per_class).map(|e| errname(*e)).collect();
                            if ev.name == "openat2" { for r in &fc.eagain_runs { alts.push(format!("EAGAINx{}", r)); } }
                            if fc.exhaustion && creates_fd(&ev.name, &ev) { alts.push("EXHAUST".into()); }
                            let k = ch.choose(&format!("flt@{}", ev.sig()), 1 + alts.len() as u32, 1)?;
                            if k > 0 {
                                let a = &alts[(k - 1) as usize];
                                out.faults.push((out.events.len(), a.clone()));
                                if let Some(r) = a.strip_prefix("EAGAINx") { eagain_left = r.parse::<u32>().unwrap() - 1; inject = Some(libc::EAGAIN); }
                                else if a == "EXHAUST" { exhaust = true; inject = Some(libc::EMFILE); }
                                else { inject = Some(cat[(k - 1) as usize]); }
                            }
                        }
                    }
                    _ => {}
                }
                if let Some(e) = inject { ts[w].skip_syscall()?; ev.injected = Some(e); }
                // ---- run the syscall to its exit stop
                match ts[w].step() {
                    Err(Mach(m)) if m == "TIMEOUT" => { out.timeout = true; for t in ts.iter_mut() { t.kill(); } done.iter_mut().for_each(|d| *d = true); out.events.push(ev); break; }
                    Err(e) => return Err(e),
                    Ok(Stop::Exit) => {
                        if let Some(e) = inject { ts[w].set_rval(-(e as i64))?; ev.rval = -(e as i64); } else { ev.rval = ts[w].exit_rval()?; }
                        if ev.rval >= 0 && creates_fd(&ev.name, &ev) { ev.retid = ts[w].fdid(ev.rval as i32); }
                        // an openat2 the kernel aborted by itself (something else on the machine renamed or mounted during the call):
                        // this execution is not a sample of the subject under the chosen schedule - give up on it at once, before the
                        // library's error handling shows up as unexpected choice points
                        if cfg.abort_on_noise && inject.is_none() && ev.name == "openat2" && ev.rval == -(libc::EAGAIN as i64) {
                            for t in ts.iter_mut() { t.kill(); }
                            return mach("NOISE: kernel-initiated EAGAIN during this execution");
                        }
                    }
                    Ok(Stop::Exited(_)) | Ok(Stop::Killed(_)) => { done[w] = true; ev.rval = 0; out.events.push(ev); break; }
                    Ok(Stop::Marker) => { in_window[w] = false; out.events.push(ev); break; }
                    Ok(Stop::Entry) => return mach("unexpected entry stop"),
                }
                // an inode the library creates in a directory that was inside counts as inside (closure of "reachable by walking
                // down from an ever-inside directory"); one created in a never-inside directory does not.
                if matches!(ev.name.as_str(), "mkdirat" | "mknodat" | "symlinkat" | "openat") && ev.rval >= 0 && ev.tree_rel {
                    let creating = ev.name != "openat" || ev.flags.unwrap_or(0) & libc::O_CREAT as u64 != 0;
                    if let (true, Some(id), Some(fd), Some(name)) = (creating, &ev.fdid, ev.fd, &ev.path) {
                        if out.ever_inside.contains(&(id.dev, id.ino)) {
                            // '.' and '..' are not entries a call can create: they name the directory itself / its parent
                            let entry = if name == "." || name == ".." { None } else { lstat(&format!("/proc/{}/fd/{}/{}", ts[w].pid, fd, name)).filter(|st| !preexisting.contains(&(st.dev, st.ino))) };
                            if let Some(st) = &entry { out.ever_inside.insert((st.dev, st.ino)); }
                            // the descriptor an O_CREAT open returns is that entry - unless the open followed a symlink (or O_PATH made
                            // the kernel ignore O_CREAT and follow one): then it is whatever the link pointed to, and is judged as such
                            if let Some(r) = &ev.retid { if ev.name == "openat" && !preexisting.contains(&(r.dev, r.ino)) && name != "." && name != ".." && entry.as_ref().map(|st| (st.dev, st.ino) == (r.dev, r.ino)).unwrap_or(true) { out.ever_inside.insert((r.dev, r.ino)); } }
                        }
                    }
                    out.ever_inside.extend(walk_inodes(&root_ref));
                }
                out.events.push(ev);
            }
        }};
    }

    match &cfg.mode {
        Mode::Sched => {
            // bring every worker to its first tree-relevant syscall
            for w in 0..n { run_worker!(w, true); }
            loop {
                let runnable: Vec<usize> = (0..n).filter(|&w| !done[w] && in_window[w]).collect();
                if runnable.is_empty() { break; }
                // canonical order: the current worker first if still runnable, then ascending ids
                let mut order: Vec<usize> = Vec::new();
                let cur_ok = runnable.contains(&cur);
                if cur_ok { order.push(cur); }
                for &w in &runnable { if w != cur || !cur_ok { if !order.contains(&w) { order.push(w); } } }
                let label = format!("sch@{}", order.iter().map(|&w| format!("w{}:{}", w, parked[w].as_ref().map(|e| e.sig()).unwrap_or_default())).collect::<Vec<_>>().join("|"));
                let k = ch.choose(&label, order.len() as u32, if cur_ok { 1 } else { 0 })?;
                let w = order[k as usize];
                if w != cur && cur_ok { out.switches += 1; }
                cur = w;
                // complete the parked syscall, then advance to the next tree-relevant entry (or the end of the window)
                run_worker!(w, true);
            }
        }
        _ => {
            for w in 0..n { run_worker!(w, false); }
        }
    }
    // let the workers report
    for (w, t) in ts.iter_mut().enumerate() {
        if !t.finished { let _ = t.finish(); }
        let _ = w;
    }
    unsafe { libc::alarm(0) };
    // racing mounts left behind by this execution are removed (the worker has exited; its pid directory is gone, detach by path of survivors)
    for rel in mounted.iter().rev() { let abs = format!("{}/{}", crate::sys::out("/proc"), rel.replace("{PID}", &ts[0].pid.to_string())); let _ = crate::mountmc::umount_one(&abs); }
    for t in ts.iter_mut() {
        out.obs.push(t.output.take());
        out.killed.push(t.killed_by);
        out.exit.push(t.exit_status);
    }
    out.ever_inside.extend(walk_inodes(&root_ref));
    Ok(out)
}

