//! C17: the C boundary validates arguments and respects caller buffers. Bounded-exhaustive over
//! (function x invalid-argument class) and (link length x buffer size incl. NULL).

use crate::ev::*;
use crate::gen::*;
use crate::sys::*;
use crate::tree::*;
use crate::wk::Wk;
use proto::*;
use serde_json::{json, Value};

fn c(name: &str) -> Op { Op::new(name).capi().root(ROOT_IN) }

/// every exported function that takes a root/handle descriptor, with otherwise valid arguments
fn fd_functions() -> Vec<Op> {
    vec![
        Op::new("reopen").capi().flags(O_RDONLY),
        c("resolve").path("a"), c("resolve_nofollow").path("l"), c("open_subpath").path("f").flags(O_RDONLY), c("readlink").path("l").bufsize(64),
        c("rename").path("f").path2("f2").flags(0), c("remove_dir").path("d"), c("remove_file").path("f"), c("remove_all").path("a"),
        c("create_file").path("new").flags(O_WRONLY).mode(0o644), c("mkdir").path("newd").mode(0o755), c("mkdir_all").path("x/y").mode(0o755),
        c("mknod").path("newn").mode(libc::S_IFREG | 0o644), c("symlink").path("news").path2("tgt"), c("hardlink").path("newh").path2("f"),
    ]
}

fn tree17() -> TreeSpec {
    TreeSpec::default().dir("a").file("a/x").file("f").dir("d").link("l", "f")
}

struct Case { what: String, op: Op, want_errno: i32 }

fn arg_cases() -> Vec<Case> {
    let mut v = Vec::new();
    // A. negative descriptors
    for f in fd_functions() {
        for bad in [-1i64, -9, i32::MIN as i64, -100, -4096] {
            v.push(Case { what: format!("negative-fd({})", bad), op: f.clone().num(bad), want_errno: libc::EINVAL });
        }
    }
    // B. NULL paths (first and, where there is one, second path parameter)
    for f in fd_functions() {
        if f.name == "reopen" { continue; }
        let mut o = f.clone(); o.path = None;
        v.push(Case { what: "null-path".into(), op: o, want_errno: libc::EINVAL });
        if f.path2.is_some() { let mut o = f.clone(); o.path2 = None; v.push(Case { what: "null-second-path".into(), op: o, want_errno: libc::EINVAL }); }
    }
    { let mut o = Op::new("open_root").capi(); o.path = None; v.push(Case { what: "null-path".into(), op: o, want_errno: libc::EINVAL }); }
    for n in ["proc_open", "proc_readlink"] { let mut o = Op::new(n).capi().base("self").flags(O_RDONLY).bufsize(64); o.path = None; v.push(Case { what: "null-path".into(), op: o, want_errno: libc::EINVAL }); }
    // C. unknown procfs bases
    for b in ["0", "1", "18446744073709551615", &format!("{}", 0x5001_FFFFu64 ^ 1), &format!("{}", 0x091D_5E1Fu64 ^ 1), &format!("{}", 0x3EAD_5E1Fu64 ^ 1), &format!("{}", 0x5001_FFFFu64 | (1u64 << 32))] {
        v.push(Case { what: format!("unknown-base({})", b), op: Op::new("proc_open").capi().base(b).path("status").flags(O_RDONLY), want_errno: libc::EINVAL });
        v.push(Case { what: format!("unknown-base({})", b), op: Op::new("proc_readlink").capi().base(b).path("exe").bufsize(64), want_errno: libc::EINVAL });
    }
    // D. invalid modes
    for (m, e) in [(libc::S_IFLNK | 0o644, libc::EINVAL), (libc::S_IFSOCK | 0o644, libc::ENOSYS), (0o110000 | 0o644, libc::EINVAL), (libc::S_IFMT | 0o644, libc::EINVAL), (0o030000 | 0o644, libc::EINVAL), (0o070000 | 0o600, libc::EINVAL)] {
        v.push(Case { what: format!("bad-mknod-mode(0o{:o})", m), op: c("mknod").path("newn").mode(m), want_errno: e });
    }
    // E. refused flag combinations with a VALID lent descriptor (documented as an error; the descriptor stays the caller's)
    for fl in [O_RDONLY | O_CREAT, O_WRONLY | O_EXCL, O_RDWR | O_CREAT | O_EXCL, O_RDWR | O_TMPFILE] {
        v.push(Case { what: format!("refused-flags(0x{:x})", fl), op: Op::new("reopen").capi().flags(fl), want_errno: libc::EINVAL });
    }
    for m in [0o10755u32, 0o40755, 0o100644, 0o4755, 0o2755, 0o6755, 0xffff_ffff] {
        v.push(Case { what: format!("bad-mkdir_all-mode(0o{:o})", m), op: c("mkdir_all").path("x/y").mode(m), want_errno: libc::EINVAL });
    }
    v
}

fn link_lengths(th: bool) -> Vec<usize> { if th { vec![1, 2, 7, 64, 255, 256, 1023, 4095] } else { vec![1, 2, 7, 255, 4095] } }

pub fn n_items(_tier: &str) -> usize { 3 }

pub fn run_item(tier: &str, idx: usize, only: Option<&Value>) -> MResult<ItemResult> {
    let th = tier == "thorough";
    let mut res = ItemResult::default();
    enter_jail()?;
    crate::lookup::build_decoys()?;
    let root_out = out(ROOT_IN);
    let mut workers = vec![Wk::kernel()?, Wk::emulated()?];
    for w in workers.iter_mut() {
        w.one(Op::new("open_root_key").root(ROOT_IN))?;
        // process-lifetime lazies (the global procfs handle is created by the first re-open) are not part of any call's table diff
        std::fs::create_dir_all(format!("{}/warm", root_out)).ok();
        w.one(Op::new("resolve").root(ROOT_IN).path("warm").keep("warm-h"))?;
        w.one(Op::new("reopen").handle("warm-h").flags(O_RDONLY | O_DIRECTORY))?;
        w.one(Op::new("reopen").capi().handle("warm-h").flags(O_RDONLY | O_DIRECTORY))?;
        w.one(Op::new("close_handle").handle("warm-h"))?;
    }
    match idx {
        0 => {
            // invalid-argument classes
            let cases = arg_cases();
            for w in workers.iter_mut() {
                for (ci, case) in cases.iter().enumerate() {
                    if let Some(o) = only { if o["case_index"].as_u64() != Some(ci as u64) || o["worker"].as_str() != Some(&w.name) { continue; } }
                    clear_dir(&root_out)?;
                    tree17().build(&root_out)?;
                    let before = snapshot(&out("/w"))?;
                    // a lent descriptor for pathrs_reopen
                    w.one(Op::new("resolve").root(ROOT_IN).path("f").keep("h"))?;
                    let mut op = case.op.clone();
                    if op.name == "reopen" && op.num.is_none() { op.handle = Some("h".into()); }
                    op.fdtable = true;
                    let obs = w.one(op.clone())?;
                    w.one(Op::new("close_handle").handle("h"))?;
                    let after = snapshot(&out("/w"))?;
                    res.evaluations += 1;
                    res.nontrivial += 1;
                    let desc = format!("{} {} with {}", w.name, op.brief(), case.what);
                    let replay = json!({"engine": "capimc", "item": idx, "case_index": ci, "worker": w.name, "what": case.what, "op": op});
                    res.outcome(format!("{}:{}:{}", case.op.name, case.what.split('(').next().unwrap_or(""), obs.cerr.as_ref().map(|e| errname(e.errno as i32)).unwrap_or_else(|| if obs.ok { "ok".into() } else { "?".into() })));
                    let fname = format!("{}:{}", case.op.name, case.what.split('(').next().unwrap_or(""));
                    if let Some(p) = &obs.panic { res.violate(format!("panic:{}", fname), format!("{}: panic {}", desc, p), replay); continue; }
                    let ret = obs.ret.unwrap_or(0);
                    if obs.ok || ret >= 0 { res.violate(format!("accepted:{}", fname), format!("{}: returned {} instead of an error id", desc, ret), replay); continue; }
                    if ret >= -4095 { res.violate(format!("errno-like-return:{}", fname), format!("{}: returned {}, which looks like an errno, not an error id below -4095", desc, ret), replay); continue; }
                    match &obs.cerr {
                        None => res.violate(format!("no-errorinfo:{}", fname), format!("{}: pathrs_errorinfo({}) returned NULL", desc, ret), replay),
                        Some(ce) => {
                            if ce.errno as i32 != case.want_errno { res.violate(format!("wrong-errno:{}:{}", fname, errname(ce.errno as i32)), format!("{}: errorinfo errno {} ({}), expected {}", desc, errname(ce.errno as i32), ce.desc, errname(case.want_errno)), replay); }
                            else if !ce.second_null { res.violate(format!("errorinfo-twice:{}", fname), format!("{}: a second pathrs_errorinfo returned the error again", desc), replay); }
                            else {
                                // lent descriptors and the tree are untouched
                                let bt: Vec<(i32, u64, u64)> = obs.fds_before.iter().map(|e| (e.fd, e.dev, e.ino)).collect();
                                let at: Vec<(i32, u64, u64)> = obs.fds_after.iter().map(|e| (e.fd, e.dev, e.ino)).collect();
                                if bt != at { res.violate(format!("fd-table:{}", fname), format!("{}: descriptor table changed: {:?} -> {:?}", desc, bt, at), replay); }
                                else if !diff(&before, &after).is_empty() { res.violate(format!("effect:{}", fname), format!("{}: rejected call changed the filesystem: {}", desc, diff(&before, &after).text()), replay); }
                            }
                        }
                    }
                    if res.samples.len() < 3 { res.sample(json!({"case": desc, "return": ret, "errorinfo": obs.cerr})); }
                }
            }
        }
        1 => {
            // pathrs_inroot_readlink: every link length x every buffer size 0..=len+2, and NULL buffers of every size
            for w in workers.iter_mut() {
                for &len in &link_lengths(th) {
                    clear_dir(&root_out)?;
                    let body = "x".repeat(len);
                    TreeSpec::default().link("lnk", &body).build(&root_out)?;
                    let mut sizes: Vec<i64> = (0..=(len as i64 + 2)).collect();
                    sizes.extend((0..=(len as i64 + 2)).map(|s| -(s + 1))); // NULL buffer with size s
                    if len > 300 && !th { sizes.retain(|s| { let a = if *s < 0 { -*s - 1 } else { *s }; a < 40 || (a as usize) + 40 > len || a % 97 == 0 }); }
                    let ops: Vec<Op> = sizes.iter().map(|s| c("readlink").path("lnk").bufsize(*s)).collect();
                    for chunk in ops.chunks(512) {
                        let obs = w.call(chunk.to_vec())?;
                        for (op, o) in chunk.iter().zip(obs.iter()) {
                            if let Some(on) = only { let want: Op = serde_json::from_value(on["op"].clone()).map_err(|e| Mach(e.to_string()))?; if want != *op { continue; } }
                            res.evaluations += 1;
                            res.nontrivial += 1;
                            let bs = op.bufsize.unwrap();
                            let (null, size) = if bs < 0 { (true, (-bs - 1) as usize) } else { (false, bs as usize) };
                            let desc = format!("{} pathrs_inroot_readlink(link body of {} bytes, {} size {})", w.name, len, if null { "NULL buffer," } else { "buffer" }, size);
                            let replay = json!({"engine": "capimc", "item": idx, "worker": w.name, "len": len, "op": op});
                            res.outcome(format!("len{}:{}", len, if o.ok { "ok" } else { "err" }));
                            check_readlink(&mut res, o, len, null, size, &body, &desc, replay);
                        }
                    }
                }
            }
        }
        _ => {
            // pathrs_proc_readlink on fd links whose target path has a chosen length; errorinfo on ids never issued
            for w in workers.iter_mut() {
                let lens: Vec<usize> = if th { vec![40, 255, 256, 1023] } else { vec![40, 255, 1023] };
                for &len in &lens {
                    clear_dir(&root_out)?;
                    // absolute path (inside the jail) of exactly `len` bytes
                    let prefix = format!("{}/", ROOT_IN);
                    let mut rel = String::new();
                    while prefix.len() + rel.len() + 101 < len { rel.push_str(&"d".repeat(100)); rel.push('/'); std::fs::create_dir(format!("{}/{}", root_out, rel.trim_end_matches('/'))).map_err(|e| Mach(e.to_string()))?; }
                    let rest = len - prefix.len() - rel.len();
                    rel.push_str(&"f".repeat(rest));
                    std::fs::write(format!("{}/{}", root_out, rel), b"x").map_err(|e| Mach(e.to_string()))?;
                    let full = format!("{}{}", prefix, rel);
                    if full.len() != len { return mach("length construction failed"); }
                    w.one(Op::new("raw_open").path(&full).flags(O_RDONLY).keep("long"))?;
                    w.one(Op::new("handle_at_fd").handle("long").num(77))?;
                    let mut sizes: Vec<i64> = (0..=(len as i64 + 2)).collect();
                    sizes.extend((0..=(len as i64 + 2)).map(|s| -(s + 1)));
                    if len > 300 && !th { sizes.retain(|s| { let a = if *s < 0 { -*s - 1 } else { *s }; a < 40 || (a as usize) + 40 > len || a % 97 == 0 }); }
                    for base in ["self", "thread-self"] {
                        let ops: Vec<Op> = sizes.iter().map(|s| Op::new("proc_readlink").capi().base(base).path("fd/77").bufsize(*s)).collect();
                        for chunk in ops.chunks(256) {
                            let obs = w.call(chunk.to_vec())?;
                            for (op, o) in chunk.iter().zip(obs.iter()) {
                                res.evaluations += 1;
                                res.nontrivial += 1;
                                let bs = op.bufsize.unwrap();
                                let (null, size) = if bs < 0 { (true, (-bs - 1) as usize) } else { (false, bs as usize) };
                                let desc = format!("{} pathrs_proc_readlink({}, fd link of {} bytes, {} size {})", w.name, base, len, if null { "NULL buffer," } else { "buffer" }, size);
                                let replay = json!({"engine": "capimc", "item": idx, "worker": w.name, "len": len, "op": op});
                                res.outcome(format!("proc-len{}:{}", len, if o.ok { "ok" } else { "err" }));
                                check_readlink(&mut res, o, len, null, size, &full, &desc, replay);
                            }
                        }
                    }
                    w.one(Op::new("close_handle").handle("long"))?;
                }
                // ids that were never issued (or already consumed) yield NULL
                for id in [0i64, -1, 1, -4095, -4096, -4097, i32::MIN as i64, i32::MAX as i64, -123456789] {
                    let o = w.one(Op::new("errorinfo").capi().num(id))?;
                    res.evaluations += 1;
                    if o.text.as_deref() != Some("NULL") { res.violate("errorinfo-unknown-id", format!("{} pathrs_errorinfo({}) returned {:?} for an id that was never issued", w.name, id, o.text), json!({"engine": "capimc", "item": idx, "id": id})); }
                }
            }
        }
    }
    Ok(res)
}

#[allow(clippy::too_many_arguments)]
fn check_readlink(res: &mut ItemResult, o: &Obs, len: usize, null: bool, size: usize, body: &str, desc: &str, replay: Value) {
    if let Some(p) = &o.panic { res.violate("readlink:panic", format!("{}: panic {}", desc, p), replay); return; }
    let ret = o.ret.unwrap_or(i64::MIN);
    if ret != len as i64 { res.violate(format!("readlink:return:{}", if ret < 0 { "error" } else { "length" }), format!("{}: returned {} instead of the full length {} ({:?})", desc, ret, len, o.cerr.as_ref().map(|e| e.desc.clone())), replay); return; }
    if o.canary_ok == Some(false) { res.violate("readlink:overflow", format!("{}: wrote outside the caller's buffer", desc), replay); return; }
    if !null {
        let want = len.min(size);
        if o.written != Some(want as i64) { res.violate("readlink:copied", format!("{}: copied {:?} bytes, expected min(length, size) = {}", desc, o.written, want), replay); return; }
        if o.text.as_deref() != Some(&body[..want]) { res.violate("readlink:content", format!("{}: buffer does not hold the first {} bytes of the link", desc, want), replay); }
    }
}

pub fn report(tier: &str) -> Report {
    let th = tier == "thorough";
    Report {
        level: "exploration",
        rule: format!("(a) {} (function, invalid-argument class) pairs: every exported function taking a descriptor x {{-1, -EBADF, INT_MIN, AT_FDCWD, -4096}}, every path parameter NULL, 7 unknown pathrs_proc_base_t values (0, 1, 2^64-1, each valid value with one bit flipped, a valid value with a high bit set), invalid S_IFMT / S_IFSOCK / bits above 07777 / setuid-setgid; each on both backends; oracle: return < -4095, errorinfo errno EINVAL (ENOSYS for S_IFSOCK), second errorinfo NULL, descriptor table and filesystem unchanged. (b) pathrs_inroot_readlink for link lengths {:?} x every buffer size 0..=len+2 and a NULL buffer with every such size{}; (c) pathrs_proc_readlink on fd links of chosen target length x the same sizes x 2 bases; oracle: return = full length, exactly min(len,size) bytes copied and equal to the prefix, 64-byte canaries intact; errorinfo of never-issued ids is NULL. All cases distinct by construction.", arg_cases().len(), link_lengths(th), if th { "" } else { " (sizes around both ends and every 97th for the longest links)" }),
        assumptions: vec!["the worker calls the exported extern \"C\" symbols directly (same ABI as a C caller); header/binding agreement is C18's business".into(), "link bodies never contain the canary byte 0xA5".into()],
        exhaustive: true,
        extra: json!({}),
    }
}
