//! Item results, the process pool, evidence files, known findings and verdict printing.

use crate::sys::*;
use serde::{Deserialize, Serialize};
use serde_json::{json, Value};
use std::collections::{BTreeMap, BTreeSet};
use std::io::Read;
use std::process::{Command, Stdio};
use std::sync::{Arc, Mutex};

#[derive(Serialize, Deserialize, Clone, Debug, Default)]
pub struct Violation {
    /// class of the violation: what a known-findings entry is matched against
    pub key: String,
    pub desc: String,
    /// everything needed to re-run exactly this execution
    pub replay: Value,
}

#[derive(Serialize, Deserialize, Clone, Debug, Default)]
pub struct ItemResult {
    pub evaluations: u64,
    /// distinct non-trivial cases of this item (items partition the case space, so these add up)
    pub nontrivial: u64,
    pub states: u64,
    pub transitions: u64,
    pub traces_validated: u64,
    pub outcomes: BTreeSet<String>,
    pub violations: Vec<Violation>,
    pub samples: Vec<Value>,
    pub counters: BTreeMap<String, u64>,
    pub maxima: BTreeMap<String, u64>,
    pub caps_hit: Vec<String>,
    pub bound_completed: Option<u64>,
    pub machinery_error: Option<String>,
}

impl ItemResult {
    pub fn count(&mut self, k: &str, n: u64) { *self.counters.entry(k.into()).or_insert(0) += n; }
    pub fn max(&mut self, k: &str, n: u64) { let e = self.maxima.entry(k.into()).or_insert(0); if n > *e { *e = n; } }
    pub fn outcome(&mut self, s: String) { if self.outcomes.len() < 5000 { self.outcomes.insert(s); } }
    pub fn sample(&mut self, v: Value) { if self.samples.len() < 3 { self.samples.push(v); } }
    pub fn violate(&mut self, key: impl Into<String>, desc: impl Into<String>, replay: Value) {
        // bounded PER violation class (key), never globally: a class with thousands of hits (a known finding met on every error path)
        // must not crowd out a different class
        let key: String = key.into();
        let same = self.violations.iter().filter(|v| v.key == key).count();
        if same < 4 && self.violations.len() < 20_000 { self.violations.push(Violation { key, desc: desc.into(), replay }); }
        self.count("violations_total", 1);
    }
    pub fn merge(&mut self, o: ItemResult) {
        self.evaluations += o.evaluations;
        self.nontrivial += o.nontrivial;
        self.states += o.states;
        self.transitions += o.transitions;
        self.traces_validated += o.traces_validated;
        for s in o.outcomes { self.outcome(s); }
        for v in o.violations { let same = self.violations.iter().filter(|x| x.key == v.key).count(); if same < 8 && self.violations.len() < 50_000 { self.violations.push(v); } }
        for s in o.samples { if self.samples.len() < 8 { self.samples.push(s); } }
        for (k, n) in o.counters { *self.counters.entry(k).or_insert(0) += n; }
        for (k, n) in o.maxima { let e = self.maxima.entry(k).or_insert(0); if n > *e { *e = n; } }
        self.caps_hit.extend(o.caps_hit);
        self.bound_completed = match (self.bound_completed, o.bound_completed) { (Some(a), Some(b)) => Some(a.min(b)), (a, b) => a.or(b) };
        if self.machinery_error.is_none() { self.machinery_error = o.machinery_error; }
    }
}

pub struct Ctx {
    pub prop: String,
    pub tier: String,
    pub seed: u64,
    pub jobs: usize,
}

impl Ctx {
    pub fn quick(&self) -> bool { self.tier == "quick" }
}

/// Run `n` items in child processes (`vmc item <prop> <tier> <idx>`), at most ctx.jobs at a time, visiting them in
/// an order permuted by the seed (the set of items is always the same). Children print one ItemResult json as last line.
pub fn run_pool(ctx: &Ctx, n: usize, budget_s: u64) -> ItemResult { run_pool_range(ctx, 0..n, budget_s) }

pub fn run_pool_range(ctx: &Ctx, range: std::ops::Range<usize>, budget_s: u64) -> ItemResult {
    let exe = std::env::current_exe().expect("current_exe");
    let n = range.len();
    let mut order: Vec<usize> = range.collect();
    if ctx.seed != 0 && n > 1 {
        // rotation only: keeps smallest-first roughly intact while changing which shard sees what
        let k = (ctx.seed as usize) % n;
        order.rotate_left(k);
    }
    let order = Arc::new(order);
    let next = Arc::new(Mutex::new(0usize));
    let total = Arc::new(Mutex::new(ItemResult::default()));
    let start = now();
    let mut threads = Vec::new();
    let done = Arc::new(Mutex::new(0usize));
    for _ in 0..ctx.jobs.min(n.max(1)) {
        let (order, next, total, done) = (order.clone(), next.clone(), total.clone(), done.clone());
        let exe = exe.clone();
        let (prop, tier, seed) = (ctx.prop.clone(), ctx.tier.clone(), ctx.seed);
        threads.push(std::thread::spawn(move || loop {
            let i = { let mut g = next.lock().unwrap(); let i = *g; *g += 1; i };
            if i >= order.len() { break; }
            if start.elapsed().as_secs() > budget_s { continue; }
            let idx = order[i];
            let out = Command::new(&exe)
                .args(["item", &prop, &tier, &idx.to_string()])
                .env("VERIF_SEED", seed.to_string())
                .stdin(Stdio::null())
                .stdout(Stdio::piped())
                .stderr(Stdio::piped())
                .spawn();
            let mut res = ItemResult::default();
            match out {
                Err(e) => res.machinery_error = Some(format!("spawn item {}: {}", idx, e)),
                Ok(mut child) => {
                    let mut so = String::new();
                    let mut se = String::new();
                    let mut stderr = child.stderr.take().unwrap();
                    let t = std::thread::spawn(move || { let mut s = String::new(); let _ = stderr.read_to_string(&mut s); s });
                    let _ = child.stdout.take().unwrap().read_to_string(&mut so);
                    let status = child.wait();
                    if let Ok(s) = t.join() { se = s; }
                    match so.lines().last().and_then(|l| serde_json::from_str::<ItemResult>(l).ok()) {
                        Some(mut r) => { if let Some(m) = r.machinery_error.as_mut() { let tail: String = se.chars().rev().take(4000).collect::<String>().chars().rev().collect(); m.push_str(" | stderr: "); m.push_str(&tail); } res = r }
                        None => res.machinery_error = Some(format!("item {} produced no result (status {:?}); stderr: {}", idx, status, se.chars().rev().take(1500).collect::<String>().chars().rev().collect::<String>())),
                    }
                }
            }
            total.lock().unwrap().merge(res);
            *done.lock().unwrap() += 1;
        }));
    }
    for t in threads { let _ = t.join(); }
    let mut r = Arc::try_unwrap(total).unwrap().into_inner().unwrap();
    let d = *done.lock().unwrap();
    if d < n { r.caps_hit.push(format!("wall budget {} s: {} of {} items completed", budget_s, d, n)); }
    r.count("items", d as u64);
    r
}

#[derive(Deserialize, Clone, Debug)]
pub struct Finding {
    pub status: String,
    pub property: String,
    pub key: String,
    #[serde(default)]
    pub what: String,
    #[serde(default)]
    pub commit: String,
}

pub fn load_findings() -> Vec<Finding> {
    let mut v = Vec::new();
    if let Ok(s) = std::fs::read_to_string("/verif/known_findings.jsonl") {
        for l in s.lines() {
            let l = l.trim();
            if l.is_empty() || l.starts_with('#') { continue; }
            match serde_json::from_str::<Finding>(l) { Ok(f) => v.push(f), Err(e) => eprintln!("known_findings.jsonl: bad line ({}): {}", e, l) }
        }
    }
    v
}

pub struct Report {
    pub level: &'static str,
    pub rule: String,
    pub assumptions: Vec<String>,
    pub exhaustive: bool,
    pub extra: Value,
}

/// Write evidence, replay files, print verdict lines; returns the process exit code.
pub fn finish(ctx: &Ctx, mut r: ItemResult, rep: Report, wall_s: f64) -> i32 {
    let findings = load_findings();
    let mut known_lines = BTreeSet::new();
    let mut unknown: Vec<Violation> = Vec::new();
    for v in std::mem::take(&mut r.violations) {
        match findings.iter().find(|f| f.status == "known" && f.property == ctx.prop && f.key == v.key) {
            Some(f) => { known_lines.insert(format!("KNOWN-FINDING: property={} {} [{}]", ctx.prop, f.what, f.key)); r.count("known_finding_hits", 1); }
            None => unknown.push(v),
        }
    }
    let _ = std::fs::remove_dir_all(format!("/verif/replays/{}", ctx.prop));
    let _ = std::fs::create_dir_all(format!("/verif/replays/{}", ctx.prop));
    let mut vio_lines = Vec::new();
    let mut seen_keys = BTreeMap::new();
    for v in &unknown {
        let n = seen_keys.entry(v.key.clone()).or_insert(0usize);
        *n += 1;
        if *n > 3 { continue; } // at most three replay files per violation class
        let safe: String = v.key.chars().map(|c| if c.is_ascii_alphanumeric() || c == '-' || c == '_' { c } else { '_' }).take(80).collect();
        let path = format!("/verif/replays/{}/{}-{}.json", ctx.prop, safe, n);
        let doc = json!({"property": ctx.prop, "tier": ctx.tier, "key": v.key, "desc": v.desc, "case": v.replay});
        let _ = std::fs::write(&path, serde_json::to_string_pretty(&doc).unwrap());
        vio_lines.push(format!("VIOLATION property={} replay={}", ctx.prop, path));
        eprintln!("  violation [{}]: {}", v.key, v.desc.chars().take(600).collect::<String>());
    }
    let nvio = unknown.len();
    let mut coverage = json!({
        "evaluations": r.evaluations,
        "distinct_nontrivial": r.nontrivial,
        "rule": rep.rule,
        "samples": r.samples,
        "exhaustive": rep.exhaustive && r.caps_hit.is_empty(),
        "distinct_outcomes": r.outcomes.len(),
        "outcome_classes": r.outcomes.iter().take(40).collect::<Vec<_>>(),
        "counters": r.counters,
        "maxima": r.maxima,
        "caps_hit": r.caps_hit,
        "known_findings_reported": known_lines.iter().collect::<Vec<_>>(),
        "violation_classes": seen_keys,
    });
    if rep.level == "model_checking" {
        coverage["states"] = json!(r.states);
        coverage["transitions"] = json!(r.transitions);
        coverage["traces_validated_against_impl"] = json!(r.traces_validated);
    }
    if let Some(b) = r.bound_completed { coverage["bound_completed"] = json!(b); }
    if let Value::Object(m) = rep.extra { for (k, v) in m { coverage[k] = v; } }
    let evidence = json!({
        "property_id": ctx.prop, "tier": ctx.tier, "seed": ctx.seed, "level": rep.level,
        "coverage": coverage, "assumptions": rep.assumptions, "wall_s": wall_s, "violations": nvio,
    });
    let _ = std::fs::create_dir_all("/verif/evidence");
    if let Some(e) = &r.machinery_error {
        eprintln!("MACHINERY ERROR ({}): {}", ctx.prop, e.chars().take(6000).collect::<String>());
        // no evidence is written for a run that did not complete: it would describe nothing
        return 2;
    }
    std::fs::write(format!("/verif/evidence/{}.json", ctx.prop), serde_json::to_string_pretty(&evidence).unwrap()).expect("write evidence");
    for l in &known_lines { println!("{}", l); }
    for l in &vio_lines { println!("{}", l); }
    println!("{} {}: evaluations={} nontrivial={} states={} transitions={} outcomes={} violations={} known={} wall={:.1}s{}",
        ctx.prop, ctx.tier, r.evaluations, r.nontrivial, r.states, r.transitions, r.outcomes.len(), nvio, known_lines.len(), wall_s,
        if r.caps_hit.is_empty() { String::new() } else { format!(" CAPS={:?}", r.caps_hit) });
    if nvio > 0 { 1 } else { 0 }
}

pub fn hash64(s: &str) -> u64 {
    // FNV-1a
    let mut h: u64 = 0xcbf29ce484222325;
    for b in s.as_bytes() { h ^= *b as u64; h = h.wrapping_mul(0x100000001b3); }
    h
}
