//! C01 (lookups == kernel in-root resolution on static trees) and the lookup half of C04 (K == E).
//! treemc engine: bounded-exhaustive trees x paths x ops x resolver flags x backends, reference model bound to the kernel.

use crate::ev::*;
use crate::gen::*;
use crate::rm::{Model, WalkStats};
use crate::sys::*;
use crate::tree::*;
use crate::wk::Wk;
use proto::*;
use serde_json::{json, Value};
use std::collections::BTreeSet;
use std::os::unix::io::AsRawFd;

pub const GETFL_MASK: i32 = libc::O_APPEND | libc::O_NONBLOCK | libc::O_DIRECT | libc::O_SYNC | libc::O_DSYNC | libc::O_NOATIME | libc::O_DIRECTORY | libc::O_PATH | libc::O_ACCMODE;

/// Decoys outside the root: everything a lexical escape could land on exists, at every level up to the jail root.
pub fn build_decoys() -> MResult<()> {
    let deco = TreeSpec::default().file("secret").dir("a").file("a/a").file("a/b").dir("a/x").file("b").dir("sibling").file("sibling/secret").dir("outside").file("x");
    deco.build(&out(PARENT_IN))?;
    deco.build(&out(OUTER_IN))?;
    deco.build(&out("/w"))?;
    let top = TreeSpec::default().file("secret").dir("a").file("a/a").file("b").dir("outside").file("x");
    top.build(JAIL)?;
    Ok(())
}

#[derive(Clone, Debug)]
pub struct LCase {
    pub op: Op,
    pub nofollow: bool,
}

pub fn lookup_ops(path: &str, flagsets: &[i64], rflagsets: &[u64], all_flags_with_rf: bool) -> Vec<LCase> {
    let mut v = Vec::new();
    for &rf in rflagsets {
        v.push(LCase { op: Op::new("resolve").root(ROOT_IN).path(path).rflags(rf), nofollow: false });
        v.push(LCase { op: Op::new("resolve_nofollow").root(ROOT_IN).path(path).rflags(rf), nofollow: true });
        v.push(LCase { op: Op::new("readlink").root(ROOT_IN).path(path).rflags(rf), nofollow: true });
        for (i, &f) in flagsets.iter().enumerate() {
            // with NO_SYMLINKS the quick tier keeps one plain open and every O_PATH combination (the kernel's only exception to
            // NO_SYMLINKS is O_PATH|O_NOFOLLOW on a trailing link); thorough keeps all
            if rf != 0 && !all_flags_with_rf && i >= 2 && f & O_PATH == 0 { continue; }
            v.push(LCase { op: Op::new("open_subpath").root(ROOT_IN).path(path).rflags(rf).flags(f), nofollow: f & O_NOFOLLOW != 0 });
        }
    }
    v
}

#[derive(Debug, Clone, PartialEq, Eq)]
pub enum Want {
    Obj { dev: u64, ino: u64, getfl: i32 },
    Text(String),
    Err(i32),
}

/// What the running kernel answers for this case (the oracle).
pub fn kernel_oracle(rootfd: i32, c: &LCase) -> Want {
    let rf = RESOLVE_IN_ROOT | RESOLVE_NO_MAGICLINKS | c.op.rflags.unwrap_or(0);
    let path = c.op.path.as_deref().unwrap_or("");
    let flags: u64 = match c.op.name.as_str() {
        "resolve" => O_PATH as u64,
        "resolve_nofollow" | "readlink" => (O_PATH | O_NOFOLLOW) as u64,
        _ => c.op.flags.unwrap_or(0) as u64,
    };
    match openat2(rootfd, path, flags, rf) {
        Err(e) => Want::Err(e),
        Ok(fd) => {
            if c.op.name == "readlink" {
                match readlink_fd(fd.as_raw_fd()) { Ok(t) => Want::Text(t), Err(e) => Want::Err(e) }
            } else {
                let st = fstat(fd.as_raw_fd()).unwrap();
                Want::Obj { dev: st.dev, ino: st.ino, getfl: getfl(fd.as_raw_fd()) & GETFL_MASK }
            }
        }
    }
}

pub fn got_of(o: &Obs) -> Want {
    if let Some(p) = &o.panic { return Want::Text(format!("PANIC {}", p)); }
    // an O_TMPFILE open that succeeds yields a brand-new unnamed inode each time: identity says nothing, the outcome is "created one"
    if o.ok && o.fd.as_ref().map(|f| f.nlink == 0 && f.mode & libc::S_IFMT == libc::S_IFREG).unwrap_or(false) { return Want::Text("ok(unnamed file created)".into()); }
    if !o.ok { return Want::Err(o.errno.unwrap_or(-1)); }
    if let Some(fd) = &o.fd { return Want::Obj { dev: fd.dev, ino: fd.ino, getfl: fd.getfl & GETFL_MASK }; }
    Want::Text(o.text.clone().unwrap_or_default())
}

pub fn want_text(w: &Want, labels: &std::collections::BTreeMap<(u64, u64), String>) -> String {
    match w {
        Want::Obj { dev, ino, getfl } => format!("ok[{} fl=0x{:x}]", labels.get(&(*dev, *ino)).cloned().unwrap_or_else(|| format!("OUTSIDE({},{})", dev, ino)), getfl),
        Want::Text(t) => format!("ok{:?}", t),
        Want::Err(e) => errname(*e),
    }
}

fn path_class(p: &str) -> &'static str {
    if p.is_empty() { "empty-path" } else if p.contains('\0') { "nul-path" } else if p.len() >= 4096 { "too-long-path" } else { "path" }
}

pub struct Scope {
    pub trees: Vec<TreeSpec>,
    /// trees that come with their own path list (index into `trees` -> paths)
    pub special: std::collections::BTreeMap<usize, Vec<String>>,
    pub paths: Vec<String>,
    pub thorough: bool,
    pub chunk: usize,
}

pub fn scope(tier: &str) -> Scope {
    let thorough = tier == "thorough";
    let mut trees = trees(thorough);
    for n in [39usize, 40, 41, 42] { trees.push(chain_tree(n)); }
    let paths = paths(if thorough { 3 } else { 2 }, thorough);
    let mut special = std::collections::BTreeMap::new();
    for (t, ps) in special_trees(thorough) { special.insert(trees.len(), ps); trees.push(t); }
    Scope { trees, special, paths, thorough, chunk: if thorough { 16 } else { 24 } }
}

/// Trees outside the {a,b,x} name alphabet, each with the paths that exercise it:
/// (1) names that look like what the kernel appends to the path of an unlinked file (" (deleted)") - the emulated resolver
///     verifies its position after every '..' by reading procfs path strings;
/// (2) names made of control characters, backslashes, dots that are not '.'/'..', spaces, and a 255-byte name;
/// (3) a tree four levels deep with climbing links at depth (every path of <= 4 components over {a,b,..});
/// (4) nested link bodies with pending components on several levels of the symlink stack.
pub fn special_trees(thorough: bool) -> Vec<(TreeSpec, Vec<String>)> {
    let mut v = Vec::new();
    let s = |l: &[&str]| l.iter().map(|x| x.to_string()).collect::<Vec<String>>();
    v.push((TreeSpec::default().dir("d (deleted)").dir("d (deleted)/s").file("d (deleted)/s/f").link("l", "d (deleted)/s/..").link("m", "/d (deleted)").dir(" (deleted)").file("f (deleted)").dir("e").link("e/u", "../d (deleted)/s"),
        s(&["d (deleted)", "d (deleted)/s/..", "d (deleted)/s/../..", "d (deleted)/s/../s/f", "l", "l/s", "l/s/..", "m/s/..", "m/s/../..", " (deleted)/..", " (deleted)/../f (deleted)", "f (deleted)", "f (deleted)/", "d (deleted)/../f (deleted)",
            "l/../ (deleted)", "e/u/..", "e/u/../..", "e/u/f", "e/../d (deleted)/s/../../e/u", "d (deleted)/s/f/..", "d (deleted)//s//..//"])));
    let long = "n".repeat(255);
    v.push((TreeSpec::default().dir("n\nl").dir("n\nl/s").dir("\\").file("\\/f").dir("...").dir(".../..a").dir("a b").file("a b/ ").dir(&long).file(&format!("{}/f", long)).link("k", "n\nl/s/../../.../..a").link("j", &format!("{}/../a b", long)).dir("\u{7f}").dir("-").link("%s", "/-/../\\/f"),
        s(&["n\nl/..", "n\nl/s/..", "n\nl/s/../..", "\\/f", "\\/..", ".../..", ".../..a", ".../..a/..", ".../..a/../..", "a b/ ", "a b/..", "a b/ /..", &format!("{}/..", long), &format!("{}/f", long), &format!("{}/../{}/f", long, long),
            "k", "k/..", "k/../..", "j", "j/ ", "j/..", "\u{7f}/..", "-/..", "%s", "%s/..", "..a", "...", "... ", "n\nl/s/../s/../../k/.."])));
    {
        let t = TreeSpec::default().dir("a").dir("a/a").dir("a/a/a").dir("a/a/a/a").file("a/a/a/a/b").link("a/a/b", "../../b").link("a/a/a/b", "../../../a/a/b").dir("b").file("b/a").link("b/b", "/a/a/a").link("x", "a/a/a/..");
        let sigma = ["a", "b", "..", "x"];
        let mut seqs: Vec<Vec<&str>> = vec![vec![]];
        let mut ps: Vec<String> = Vec::new();
        for depth in 0..(if thorough { 5 } else { 4 }) {
            let mut next = Vec::new();
            for q in &seqs { for c in sigma { if c == "x" && !q.is_empty() { continue; } let mut t = q.clone(); t.push(c); next.push(t); } }
            for q in &next { if depth >= 2 { ps.push(q.join("/")); if thorough { ps.push(format!("{}/", q.join("/"))); } } }
            seqs = next;
        }
        v.push((t, ps));
    }
    v.push((TreeSpec::default().dir("a").dir("a/a").file("a/a/f").dir("b").link("l1", "l2/a").link("l2", "l3/../a").link("l3", "a/a/..").link("l4", "l1/f/").link("l5", "l1/../../l2/a/f").link("a/a/up", "../../l1").link("l6", "/l2/").link("l7", "l6/a/up/f"),
        s(&["l1", "l1/f", "l1/..", "l1/../..", "l2", "l2/a/f", "l3", "l3/a", "l4", "l5", "l5/", "a/a/up", "a/a/up/f", "a/a/up/../a", "l6", "l6/a/f", "l7", "l7/", "l1/up/up/f", "l2/a/up/../up", "l3/../l3/../l1/f", "l4/..", "l5/.."])));
    v
}

pub fn n_items(tier: &str) -> usize {
    let s = scope(tier);
    (s.trees.len() + s.chunk - 1) / s.chunk
}

fn is_transient(w: &Want) -> bool {
    matches!(w, Want::Err(e) if *e == libc::EAGAIN || *e == libc::EXDEV)
}

/// One chunk of trees. `only`: restrict to a single replayed case.
pub fn run_item(prop: &str, tier: &str, idx: usize, only: Option<&Value>) -> MResult<ItemResult> {
    let sc = scope(tier);
    let mut res = ItemResult::default();
    enter_jail()?;
    build_decoys()?;
    let mut k = Wk::kernel()?;
    let mut e = Wk::emulated_for(idx)?;
    let root_out = out(ROOT_IN);
    let rootfd = open_path(&root_out)?;
    std::fs::create_dir_all(out(&format!("{}/mroot", PARENT_IN))).map_err(|e| Mach(format!("mkdir mroot: {}", e)))?;
    let outside_before = snapshot_outside()?;
    let (lo, hi) = (idx * sc.chunk, ((idx + 1) * sc.chunk).min(sc.trees.len()));
    let mut seen_states: BTreeSet<u64> = BTreeSet::new();
    for ti in lo..hi {
        let tree = &sc.trees[ti];
        if let Some(o) = only { if o["tree_idx"].as_u64() != Some(ti as u64) { continue; } }
        // C04 quantifies over at most 40 link traversals
        if prop == "C04" && tree.0.len() > 41 { continue; }
        clear_dir(&root_out)?;
        tree.build(&root_out)?;
        let snap = snapshot(&root_out)?;
        let inside = inodes(&snap);
        let labels = labels(&snap, "");
        let model = Model::from_spec(tree);
        let has_fifo = tree.0.iter().any(|(_, k)| matches!(k, Kind::Fifo));
        let is_chain = tree.0.len() > 30;
        let flagsets = open_flagsets(sc.thorough, has_fifo);
        let chain_paths: Vec<String> = vec!["l1".into(), "l2".into(), "l3".into(), "l1/".into(), "l2/.".into()];
        let paths: &Vec<String> = if let Some(sp) = sc.special.get(&ti) { sp } else if is_chain { &chain_paths } else { &sc.paths };
        let mut cases: Vec<LCase> = Vec::new();
        for p in paths {
            if let Some(o) = only { if o["path"].as_str() != Some(p.as_str()) { continue; } }
            cases.extend(lookup_ops(p, &flagsets, &[0, RESOLVE_NO_SYMLINKS], sc.thorough));
        }
        if prop == "C04" && !is_chain {
            // byte strings with an interior NUL (only expressible through the Rust API): whatever the outcome, it must not depend on the backend
            for p in ["a\0zzz/x", "a\0", "\0", "a/\0b", "x\0/../a"] {
                cases.extend(lookup_ops(p, &flagsets[..2.min(flagsets.len())], &[0], false));
            }
            // O_TMPFILE is a flag set openat2 accepts: whatever a one-shot open does with it must not depend on the backend
            for p in [".", "a", "b", "a/a", "x", "a/"] {
                for f in [O_TMPFILE | O_RDWR, O_TMPFILE | O_WRONLY, (O_TMPFILE & !O_DIRECTORY) | O_RDWR] {
                    cases.push(LCase { op: Op::new("open_subpath").root(ROOT_IN).path(p).flags(f), nofollow: false });
                }
            }
            // the same lookups through a Root that wraps a caller-supplied O_RDONLY descriptor, for the paths that end on the root
            for p in ["..", "../..", "a/..", ".", "/", "b/../..", "a/../../b"] {
                for mut c in lookup_ops(p, &flagsets[..2.min(flagsets.len())], &[0], false) { c.op.root = Some(format!("rdonly:{}", ROOT_IN)); cases.push(c); }
            }
        }
        for c in cases.iter_mut() { c.op.via = api_flavour(prop, idx); }
        if let Some(o) = only {
            let want: Op = serde_json::from_value(o["op"].clone()).map_err(|e| Mach(format!("bad replay op: {}", e)))?;
            cases.retain(|c| c.op == want);
        }
        if cases.is_empty() { continue; }
        let ops: Vec<Op> = cases.iter().map(|c| c.op.clone()).collect();
        // trees with a FIFO: the two workers (and the oracle) must not hold its ends open at the same time, because
        // whether open(O_WRONLY|O_NONBLOCK) gives ENXIO depends on a concurrent reader - strictly one after the other
        let (mut ko, mut eo);
        if has_fifo {
            ko = k.call(ops.clone())?;
            eo = e.call(ops)?;
        } else {
            k.send(ops.clone())?;
            e.send(ops)?;
            ko = k.recv(cases.len())?;
            eo = e.recv(cases.len())?;
        }
        for (i, c) in cases.iter().enumerate() {
            let path = c.op.path.as_deref().unwrap();
            let has_nul = path.contains('\0');
            let mut want = if has_nul { Want::Err(-999) } else { kernel_oracle(rootfd.as_raw_fd(), c) };
            if matches!(want, Want::Err(libc::EAGAIN)) { return mach(format!("kernel oracle keeps answering EAGAIN on a static tree: {} {}", tree.text(), c.op.brief())); }
            // reference model bound to the kernel (O_PATH lookups only; open flags are the kernel's business)
            let mut st = WalkStats { steps: 0, follows: 0 };
            if c.op.name != "open_subpath" && !has_nul {
                let nsl = c.op.rflags.unwrap_or(0) & RESOLVE_NO_SYMLINKS != 0;
                let rm = model.resolve(path, c.nofollow, nsl, &mut st);
                let rm_id: Result<Option<(u64, u64)>, i32> = rm.clone().map(|p| snap.get(&p).map(|n| (n.dev, n.ino)));
                let agree = match (&rm_id, &want) {
                    (Err(a), Want::Err(b)) => a == b,
                    (Ok(Some((d, i))), Want::Obj { dev, ino, .. }) => d == dev && i == ino,
                    (Ok(Some(_)), Want::Text(_)) => true, // readlink: RM found the node, kernel read a body
                    (Ok(Some(id)), Want::Err(e)) if c.op.name == "readlink" => { let _ = id; *e == libc::ENOENT || *e == libc::EINVAL } // readlinkat on a non-link
                    _ => false,
                };
                // under heavy machine load a restarted kernel walk can report ELOOP for chains just below the limit: ask again
                let mut agree = agree;
                if !agree {
                    for _ in 0..6 {
                        want = kernel_oracle(rootfd.as_raw_fd(), c);
                        let a2 = match (&rm_id, &want) {
                            (Err(a), Want::Err(b)) => a == b,
                            (Ok(Some((d, i))), Want::Obj { dev, ino, .. }) => d == dev && i == ino,
                            (Ok(Some(_)), Want::Text(_)) => true,
                            (Ok(Some(_)), Want::Err(e)) if c.op.name == "readlink" => *e == libc::ENOENT || *e == libc::EINVAL,
                            _ => false,
                        };
                        if a2 { agree = true; break; }
                    }
                }
                if !agree {
                    return mach(format!("MODEL MISMATCH (reference model vs kernel): tree [{}] {} rm={:?} kernel={:?}", tree.text(), c.op.brief(), rm, want));
                }
                res.traces_validated += 1;
                res.transitions += st.steps;
                seen_states.insert(hash64(&format!("{}|{}|{}|{}", ti, path, c.nofollow, nsl)));
            }
            res.evaluations += 2;
            let nontrivial = st.follows > 0 || path.contains("..") || matches!(want, Want::Err(libc::ELOOP) | Want::Err(libc::ENOTDIR));
            if nontrivial { res.nontrivial += 1; }
            let mut undecided = false;
            for (bk, obs_list, wk) in [("K", &mut ko, &mut k), ("E", &mut eo, &mut e)] {
                let mut got = got_of(&obs_list[i]);
                // transient kernel EAGAIN / SafetyViolation caused by other shards' mounts and renames: re-run the single case
                let mut tries = 0;
                while !has_nul && got != want && is_transient(&got) && tries < 50 {
                    obs_list[i] = wk.one(c.op.clone())?;
                    got = got_of(&obs_list[i]);
                    tries += 1;
                    if tries > 3 { want = kernel_oracle(rootfd.as_raw_fd(), c); }
                }
                let obs = &obs_list[i];
                if got != want && obs.msg.as_deref().map(|m| m.contains("racing filesystem changes caused openat2 to abort")).unwrap_or(false) {
                    // openat2 kept aborting with EAGAIN through 50 re-runs: external rename/mount load; undecidable now
                    res.count("transient_undecided", 1);
                    undecided = true;
                    continue;
                }
                res.outcome(format!("{}:{}", c.op.name, match &got { Want::Obj { .. } => "ok".into(), Want::Text(_) => "text".into(), Want::Err(e) => errname(*e) }));
                let replay = json!({"engine": "lookup", "item": idx, "tree_idx": ti, "tree": tree.text(), "path": path, "op": c.op, "backend": bk});
                if obs.panic.is_some() {
                    res.violate(format!("{}:{}:panic", bk, c.op.name), format!("panic on tree [{}] {}: {:?}", tree.text(), c.op.brief(), obs.panic), replay.clone());
                    continue;
                }
                // (3) containment, independent of kernel and model
                if let Some(fd) = &obs.fd {
                    // (an unnamed file an O_TMPFILE open created is nobody's entry; whether such an open may succeed at all is C04's question)
                    if !inside.contains(&(fd.dev, fd.ino)) && !(fd.nlink == 0 && fd.mode & libc::S_IFMT == libc::S_IFREG) {
                        res.violate(format!("{}:{}:escape", bk, c.op.name), format!("ESCAPE: tree [{}] {} returned an object outside the root ({:?})", tree.text(), c.op.brief(), fd.procpath), replay.clone());
                        continue;
                    }
                    if !fd.cloexec {
                        res.violate(format!("{}:{}:no-cloexec", bk, c.op.name), format!("descriptor without FD_CLOEXEC: tree [{}] {}", tree.text(), c.op.brief()), replay.clone());
                    }
                }
                let cmp = |w: &Want, g: &Want| if c.op.name == "open_subpath" { (w.clone(), g.clone()) } else { (strip_fl(w), strip_fl(g)) };
                let (mut cw, mut cg) = cmp(&want, &got);
                if prop == "C01" && cg != cw && !has_nul {
                    // a divergence on a static tree is deterministic; an answer that changes when the same single case is asked again
                    // (kernel walks restarted under machine load keep their link count: spurious ELOOP below the limit) is not one
                    for _ in 0..3 {
                        let o2 = wk.one(c.op.clone())?;
                        let g2 = got_of(&o2);
                        let w2 = kernel_oracle(rootfd.as_raw_fd(), c);
                        let (cw2, cg2) = cmp(&w2, &g2);
                        if cw2 == cg2 { res.count("unstable_answers", 1); cw = cw2; cg = cg2; break; }
                    }
                }
                if prop == "C01" && cg != cw {
                    let chain = is_chain && tree.0.len() > 41 && matches!(want, Want::Err(libc::ELOOP));
                    let key = if chain { format!("{}:linkchain>40:ELOOP->not-ELOOP", bk) } else { format!("{}:{}:{}:{}->{}", bk, c.op.name, path_class(path), cls(&want), cls(&got)) };
                    res.violate(key, format!("tree [{}] {} on backend {}: kernel in-root resolution gives {}, libpathrs gives {} ({})", tree.text(), c.op.brief(), bk,
                        want_text(&want, &labels), want_text(&got, &labels), obs.msg.clone().unwrap_or_default()), replay.clone());
                }
            }
            if prop == "C04" && !undecided {
                let (mut gk, mut ge) = (got_of(&ko[i]), got_of(&eo[i]));
                let mut same_kind = ko[i].kind == eo[i].kind;
                // a divergence must be stable: transient kernel answers under machine load (EAGAIN storms, ELOOP from restarted walks
                // just below the link limit) are excluded by running the single case again on both backends
                let mut tries = 0;
                let mut total = 0;
                while (gk != ge || !same_kind) && tries < 4 && total < 12 {
                    tries += 1; total += 1;
                    ko[i] = k.one(c.op.clone())?;
                    eo[i] = e.one(c.op.clone())?;
                    let (k2, e2) = (got_of(&ko[i]), got_of(&eo[i]));
                    if k2 == e2 && ko[i].kind == eo[i].kind { gk = k2; ge = e2; same_kind = true; break; }
                    if k2 != gk || e2 != ge { gk = k2; ge = e2; same_kind = ko[i].kind == eo[i].kind; tries = tries.min(2); res.count("unstable_answers", 1); }
                }
                if gk != ge || !same_kind {
                    let key = format!("lookup:{}{}:{}:K={}/{} E={}/{}", c.op.name, if c.op.root.as_deref().map(|r| r.starts_with("rdonly:")).unwrap_or(false) { "[rdonly-root]" } else { "" }, path_class(path), short(&gk), ko[i].kind.clone().unwrap_or_default(), short(&ge), eo[i].kind.clone().unwrap_or_default());
                    res.violate(key, format!("tree [{}] {}: kernel backend gives {} ({}), emulated backend gives {} ({})", tree.text(), c.op.brief(),
                        want_text(&gk, &labels), ko[i].msg.clone().unwrap_or_default(), want_text(&ge, &labels), eo[i].msg.clone().unwrap_or_default()),
                        json!({"engine": "lookup", "item": idx, "tree_idx": ti, "tree": tree.text(), "path": path, "op": c.op}));
                }
            }
            if i % 997 == 0 {
                res.sample(json!({"tree": tree.text(), "op": c.op.brief(), "kernel": want_text(&want, &labels), "K": want_text(&got_of(&ko[i]), &labels), "E": want_text(&got_of(&eo[i]), &labels)}));
            }
        }
        res.count("trees", 1);
    }
    // one tree with a procfs instance mounted inside the root (first item only): magic-links met on the way must end the lookup
    // with ELOOP exactly where the kernel's RESOLVE_NO_MAGICLINKS does. Process-specific inodes differ between the two workers
    // and the oracle (three different pids), so outcomes are compared by class (ok / errno) here.
    if idx == 0 && only.map(|o| o["tree_idx"].as_u64() == Some(999_999)).unwrap_or(true) {
        clear_dir(&root_out)?;
        let t = TreeSpec::default().dir("a").dir("p").link("l", "p/self/cwd").link("l2", "/p/self/root").link("l3", "p/sys/kernel").file("f");
        t.build(&root_out)?;
        let (src, tgt, typ) = (cs("proc"), cs(&format!("{}/p", root_out)), cs("proc"));
        if unsafe { libc::mount(src.as_ptr(), tgt.as_ptr(), typ.as_ptr(), 0, std::ptr::null()) } != 0 { return mach(format!("mount procfs inside the root: errno {}", errno())); }
        let snap = snapshot(&root_out)?;
        let inside = inodes(&snap);
        let paths = ["p/self/cwd", "p/self/root", "p/self/exe", "p/self/cwd/a", "p/self/root/a", "p/thread-self/cwd", "p/self/fd/0", "p/1/cwd", "p/self", "p/sys/kernel/ostype", "p/uptime", "p/..", "p/../a",
                     "l", "l/a", "l2", "l2/a", "l3/ostype", "p/self/task/../cwd", "p/self/ns/mnt", "p/nonexistent", "p/self/cwd/", "a/../p/self/cwd"];
        let mut cases: Vec<LCase> = Vec::new();
        for p in paths { for c in lookup_ops(p, &[O_PATH, O_RDONLY | O_NONBLOCK], &[0], false) { if c.op.name != "readlink" { cases.push(c); } } }
        if let Some(o) = only { let want: Op = serde_json::from_value(o["op"].clone()).map_err(|e| Mach(format!("bad replay op: {}", e)))?; cases.retain(|c| c.op == want); }
        let ops: Vec<Op> = cases.iter().map(|c| c.op.clone()).collect();
        let ko = k.call(ops.clone())?;
        let eo = e.call(ops)?;
        let class = |w: &Want| match w { Want::Err(e) => errname(*e), Want::Text(t) if t.starts_with("PANIC") => "PANIC".to_string(), _ => "ok".to_string() };
        for (i, c) in cases.iter().enumerate() {
            let mut want = kernel_oracle(rootfd.as_raw_fd(), c);
            res.evaluations += 2; res.nontrivial += 1;
            for (bk, obs, wk) in [("K", &ko[i], &mut k), ("E", &eo[i], &mut e)] {
                let mut got = got_of(obs);
                let mut tries = 0;
                while class(&got) != class(&want) && (is_transient(&got) || is_transient(&want)) && tries < 20 { got = got_of(&wk.one(c.op.clone())?); want = kernel_oracle(rootfd.as_raw_fd(), c); tries += 1; }
                res.outcome(format!("procfs-in-tree:{}:{}", c.op.name, class(&got)));
                let replay = json!({"engine": "lookup", "item": 0, "tree_idx": 999_999, "tree": "a/ p/=procfs l->p/self/cwd l2->/p/self/root l3->p/sys/kernel f", "path": c.op.path, "op": c.op, "backend": bk});
                if let Some(fd) = &obs.fd {
                    if fd.fstype != PROC_MAGIC && !inside.contains(&(fd.dev, fd.ino)) {
                        res.violate(format!("{}:{}:escape", bk, c.op.name), format!("ESCAPE: tree with procfs mounted at p: {} returned an object outside the root ({:?})", c.op.brief(), fd.procpath), replay.clone());
                        continue;
                    }
                }
                // magic-links whose text is not a path (pipe:[N], mnt:[N]) are a class of their own
                let pclass = if matches!(c.op.path.as_deref(), Some("p/self/fd/0") | Some("p/self/ns/mnt")) { "pseudo-magiclink" } else { "path" };
                if prop == "C01" && class(&got) != class(&want) {
                    res.violate(format!("{}:{}:procfs-in-tree:{}:{}->{}", bk, c.op.name, pclass, class(&want), class(&got)), format!("tree with procfs mounted at p: {} on backend {}: kernel in-root resolution gives {}, libpathrs gives {} ({})", c.op.brief(), bk, class(&want), class(&got), obs.msg.clone().unwrap_or_default()), replay.clone());
                }
            }
            if prop == "C04" && class(&got_of(&ko[i])) != class(&got_of(&eo[i])) {
                let pclass = if matches!(c.op.path.as_deref(), Some("p/self/fd/0") | Some("p/self/ns/mnt")) { "pseudo-magiclink" } else { "path" };
                res.violate(format!("lookup:{}:procfs-in-tree:{}:K={} E={}", c.op.name, pclass, class(&got_of(&ko[i])), class(&got_of(&eo[i]))), format!("tree with procfs mounted at p: {}: kernel backend gives {}, emulated backend gives {}", c.op.brief(), class(&got_of(&ko[i])), class(&got_of(&eo[i]))),
                    json!({"engine": "lookup", "item": 0, "tree_idx": 999_999, "path": c.op.path, "op": c.op}));
            }
        }
        let tgt = cs(&format!("{}/p", root_out));
        unsafe { libc::umount2(tgt.as_ptr(), libc::MNT_DETACH) };
        res.count("trees", 1);
    }
    // Root placements and mounts inside the tree (second item only). The three processes see the same inodes here, so the
    // comparison is exact: the kernel's own in-root answer (object identity, link text, errno) for every case.
    if idx == (if n_items(tier) > 1 { 1 } else { 0 }) && only.map(|o| o["tree_idx"].as_u64().map(|t| t >= 999_000 && t < 999_010).unwrap_or(false)).unwrap_or(true) {
        let deep = special_trees(false).into_iter().nth(2).unwrap();
        let s = |l: &[&str]| l.iter().map(|x| x.to_string()).collect::<Vec<String>>();
        // (a) a tree that contains mount points: a tmpfs, a bind-mounted outside directory, a bind-mounted file
        // (b) a root that is itself the root directory of a mounted filesystem
        // (c) a root that is the caller's "/" (the jail root as the chrooted workers see it)
        for (which, root_in) in [(0u64, ROOT_IN.to_string()), (1, format!("{}/mroot", PARENT_IN)), (2, "/".to_string())] {
            if let Some(o) = only { if o["tree_idx"].as_u64() != Some(999_000 + which) { continue; } }
            let root_out_w = if which == 2 { JAIL.to_string() } else { out(&root_in) };
            let mut undo: Vec<String> = Vec::new();
            let mount = |src: &str, tgt: &str, typ: Option<&str>, flags: libc::c_ulong| -> MResult<()> {
                let (s_, t_) = (cs(src), cs(tgt)); let ty = typ.map(cs);
                if unsafe { libc::mount(s_.as_ptr(), t_.as_ptr(), ty.as_ref().map(|c| c.as_ptr()).unwrap_or(std::ptr::null()), flags, std::ptr::null()) } != 0 { return mach(format!("mount {} on {}: errno {}", src, tgt, errno())); }
                Ok(())
            };
            let (tree_text, paths): (String, Vec<String>) = match which {
                0 => {
                    clear_dir(&root_out_w)?;
                    TreeSpec::default().dir("a").file("a/f").dir("m").dir("bs").file("bf").link("l", "m/a/..").link("l2", "bs/..").link("l3", "/m/up2/bf").build(&root_out_w)?;
                    mount("tmpfs", &format!("{}/m", root_out_w), Some("tmpfs"), 0)?; undo.push(format!("{}/m", root_out_w));
                    TreeSpec::default().dir("a").file("a/f").file("f").link("up", "..").link("up2", "../..").link("abs", "/a").link("self", "/m/a").build(&format!("{}/m", root_out_w))?;
                    mount(&format!("{}/sibling", out(PARENT_IN)), &format!("{}/bs", root_out_w), None, libc::MS_BIND)?; undo.push(format!("{}/bs", root_out_w));
                    mount(&format!("{}/secret", out(PARENT_IN)), &format!("{}/bf", root_out_w), None, libc::MS_BIND)?; undo.push(format!("{}/bf", root_out_w));
                    ("a/ a/f m/=tmpfs{a/ a/f f up->.. up2->../.. abs->/a self->/m/a} bs/=bind(sibling) bf=bind(secret) l->m/a/.. l2->bs/.. l3->/m/up2/bf".into(),
                     s(&["m", "m/..", "m/a/..", "m/a/../..", "m/a/../../..", "m/up", "m/up/a/f", "m/up2", "m/up2/a", "m/abs/f", "m/self/..", "m/self/../..", "m/self/../../a/f", "bs", "bs/..", "bs/secret", "bs/../a/f", "bs/../..", "bf", "bf/", "bf/..",
                         "l", "l/..", "l/f", "l2", "l2/a/f", "l3", "m/../m/a/f", "m/a/../../bs/../m/up", "m/f/..", "bs/secret/..", "/m/../bs/../bf"]))
                }
                1 => {
                    std::fs::create_dir_all(&root_out_w).map_err(|e| Mach(format!("mkdir mroot: {}", e)))?;
                    mount("tmpfs", &root_out_w, Some("tmpfs"), 0)?; undo.push(root_out_w.clone());
                    deep.0.build(&root_out_w)?;
                    (format!("(root is a mount point) {}", deep.0.text()), deep.1.clone())
                }
                _ => {
                    ("(root is the caller's /) jail root with decoys".into(),
                     s(&["..", "../..", ".", "/", "a", "a/..", "a/../..", "a/a", "a/a/..", "b", "b/..", "secret", "w", "w/..", "w/../..", "w/outer/..", "w/outer/../..", "w/outer/parent/../../..", "w/outer/parent/root/..", "w/../a/../secret",
                         "outside/..", "x/..", "nonexistent", "nonexistent/..", "/../a", "//", "a//..//..//b"]))
                }
            };
            let rootfd_w = open_path(&root_out_w)?;
            let mut cases: Vec<LCase> = Vec::new();
            for p in &paths {
                if let Some(o) = only { if o["path"].as_str() != Some(p.as_str()) { continue; } }
                for mut c in lookup_ops(p, &[O_PATH, O_RDONLY | O_NONBLOCK, O_PATH | O_NOFOLLOW, O_RDONLY | O_DIRECTORY | O_NONBLOCK], &[0, RESOLVE_NO_SYMLINKS], false) { c.op.root = Some(root_in.clone()); cases.push(c); }
            }
            if let Some(o) = only { let want: Op = serde_json::from_value(o["op"].clone()).map_err(|e| Mach(format!("bad replay op: {}", e)))?; cases.retain(|c| c.op == want); }
            let ops: Vec<Op> = cases.iter().map(|c| c.op.clone()).collect();
            let mut ko = k.call(ops.clone())?;
            let mut eo = e.call(ops)?;
            for (i, c) in cases.iter().enumerate() {
                let mut want = kernel_oracle(rootfd_w.as_raw_fd(), c);
                res.evaluations += 2; res.nontrivial += 1;
                let cmp = |w: &Want, g: &Want| if c.op.name == "open_subpath" { (w.clone(), g.clone()) } else { (strip_fl(w), strip_fl(g)) };
                for (bk, obs_list, wk) in [("K", &mut ko, &mut k), ("E", &mut eo, &mut e)] {
                    let mut got = got_of(&obs_list[i]);
                    let mut tries = 0;
                    while cmp(&want, &got).0 != cmp(&want, &got).1 && tries < 6 {
                        // re-ask both sides: only a stable difference counts (15.1)
                        obs_list[i] = wk.one(c.op.clone())?; got = got_of(&obs_list[i]); want = kernel_oracle(rootfd_w.as_raw_fd(), c); tries += 1;
                        if !is_transient(&got) && !is_transient(&want) && tries >= 3 { break; }
                    }
                    let placement = ["mounts-in-tree", "root-is-mountpoint", "root-is-slash"][which as usize];
                    res.outcome(format!("{}:{}:{}", placement, c.op.name, cls(&got)));
                    let replay = json!({"engine": "lookup", "item": idx, "tree_idx": 999_000 + which, "tree": tree_text, "path": c.op.path, "op": c.op, "backend": bk});
                    if obs_list[i].panic.is_some() { res.violate(format!("{}:{}:panic", bk, c.op.name), format!("panic ({}) {}: {:?}", placement, c.op.brief(), obs_list[i].panic), replay.clone()); continue; }
                    let (cw, cg) = cmp(&want, &got);
                    if prop == "C01" && cw != cg {
                        res.violate(format!("{}:{}:{}:{}->{}", bk, c.op.name, placement, cls(&want), cls(&got)), format!("{} [{}] {} on backend {}: kernel in-root resolution gives {:?}, libpathrs gives {:?} ({})", placement, tree_text, c.op.brief(), bk, want, got, obs_list[i].msg.clone().unwrap_or_default()), replay.clone());
                    }
                }
                if prop == "C04" {
                    let (gk, ge) = (got_of(&ko[i]), got_of(&eo[i]));
                    if gk != ge || ko[i].kind != eo[i].kind {
                        let placement = ["mounts-in-tree", "root-is-mountpoint", "root-is-slash"][which as usize];
                        res.violate(format!("lookup:{}:{}:K={}/{} E={}/{}", c.op.name, placement, short(&gk), ko[i].kind.clone().unwrap_or_default(), short(&ge), eo[i].kind.clone().unwrap_or_default()), format!("{} [{}] {}: kernel backend gives {:?} ({}), emulated backend gives {:?} ({})", placement, tree_text, c.op.brief(), gk, ko[i].msg.clone().unwrap_or_default(), ge, eo[i].msg.clone().unwrap_or_default()),
                            json!({"engine": "lookup", "item": idx, "tree_idx": 999_000 + which, "path": c.op.path, "op": c.op}));
                    }
                }
            }
            drop(rootfd_w);
            for m in undo.iter().rev() { let t = cs(m); unsafe { libc::umount2(t.as_ptr(), libc::MNT_DETACH) }; }
            res.count("trees", 1);
        }
    }
    // Callers other than root (third item only): uid 1000 without capabilities, and root stripped of every capability, on a tree
    // whose directories and files carry restrictive modes. The oracle is the kernel's answer to the SAME caller: one raw openat2
    // issued by a third worker process with the same identity (no library code involved).
    if idx == (if n_items(tier) > 2 { 2 } else { 0 }) && only.map(|o| o["tree_idx"].as_u64().map(|t| t >= 999_100 && t < 999_110).unwrap_or(false)).unwrap_or(true) {
        for (which, (uid, drop_caps)) in [(1000u32, false), (0u32, true)].into_iter().enumerate() {
            if let Some(o) = only { if o["tree_idx"].as_u64() != Some(999_100 + which as u64) { continue; } }
            clear_dir(&root_out)?;
            // (path, kind, owner, final mode)
            let ents: Vec<(&str, &str, u32, u32)> = vec![
                ("d711", "d", 1000, 0o711), ("d711/f", "f", 1000, 0o644), ("d711/sub", "d", 1000, 0o755), ("d711/l", "l:../pub/f", 1000, 0),
                ("d000", "d", 1000, 0o000), ("d000/f", "f", 1000, 0o644), ("d000/sub", "d", 1000, 0o755),
                ("d500", "d", 1000, 0o500), ("d500/f", "f", 1000, 0o644),
                ("d300", "d", 1000, 0o300), ("d300/f", "f", 1000, 0o644), ("d300/sub", "d", 1000, 0o755),
                ("d070", "d", 1000, 0o070), ("d070/f", "f", 1000, 0o644),
                ("dr", "d", 0, 0o755), ("dr/f0", "f", 0, 0o600), ("dr/x", "d", 0, 0o700), ("dr/x/f", "f", 0, 0o644), ("dr/o", "d", 0, 0o701), ("dr/o/f", "f", 0, 0o604),
                ("pub", "d", 1000, 0o755), ("pub/f", "f", 1000, 0o644), ("pub/w", "f", 1000, 0o200), ("pub/none", "f", 1000, 0o000), ("pub/x", "f", 0, 0o711),
                ("l1", "l:d000/f", 1000, 0), ("l2", "l:dr/x/..", 1000, 0), ("l3", "l:d300/sub/..", 1000, 0), ("l4", "l:/dr/x", 0, 0), ("l5", "l:dr/o/f", 0, 0), ("l6", "l:d711/sub/../f", 1000, 0),
            ];
            for (p, k, _, _) in &ents {
                let full = cs(&format!("{}/{}", root_out, p));
                let r = unsafe { match *k { "d" => libc::mkdir(full.as_ptr(), 0o755), "f" => { let fd = libc::open(full.as_ptr(), libc::O_CREAT | libc::O_WRONLY | libc::O_CLOEXEC, 0o644); if fd >= 0 { libc::close(fd); 0 } else { -1 } }, l => { let t = cs(&l[2..]); libc::symlink(t.as_ptr(), full.as_ptr()) } } };
                if r != 0 { return mach(format!("build {}: errno {}", p, errno())); }
            }
            for (p, k, owner, mode) in ents.iter().rev() {
                let full = cs(&format!("{}/{}", root_out, p));
                unsafe { libc::lchown(full.as_ptr(), *owner, *owner); if !k.starts_with("l:") { libc::chmod(full.as_ptr(), *mode); } }
            }
            let snap = snapshot(&root_out)?;
            let labels_u = labels(&snap, "");
            let tree_text = ents.iter().map(|(p, k, o, m)| format!("{}{} u{} {:o}", p, if *k == "d" { "/" } else if *k == "f" { "" } else { &k[1..] }, o, m)).collect::<Vec<_>>().join(" ");
            let setup = |deny: Vec<String>| Setup { jail: JAIL.into(), deny, uid, gid: uid, drop_caps, ..Default::default() };
            let who = if uid == 0 { "root-nocaps" } else { "uid1000" };
            let mut ku = Wk::spawn(&format!("K-{}", who), &setup(vec![]))?;
            let mut eu = Wk::spawn(&format!("E-{}", who), &setup(vec!["openat2".into()]))?;
            let mut ou = Wk::spawn(&format!("O-{}", who), &setup(vec![]))?;
            let paths = ["d711", "d711/f", "d711/sub", "d711/sub/..", "d711/sub/../f", "d711/l", "d711/..", "d000", "d000/f", "d000/sub", "d000/..", "d000/../pub/f", "d000/sub/..", "d500/f", "d500/..", "d500/../d500/f", "d300", "d300/f", "d300/sub", "d300/sub/..",
                "d300/sub/../f", "d070", "d070/f", "d070/..", "dr/f0", "dr/x", "dr/x/f", "dr/x/..", "dr/x/../f0", "dr/o", "dr/o/f", "dr/o/..", "dr/o/../f0", "pub/f", "pub/w", "pub/none", "pub/x", "pub/none/", "pub/../pub/w", "l1", "l2", "l2/f0", "l3", "l3/f", "l4", "l4/f", "l4/..", "l5", "l6", "l6/",
                "d000/nonexistent", "dr/x/nonexistent", "d300/nonexistent", "nonexistent", "..", "d711/../d000/../pub"];
            let mut cases: Vec<LCase> = Vec::new();
            for p in paths {
                if let Some(o) = only { if o["path"].as_str() != Some(p) { continue; } }
                cases.extend(lookup_ops(p, &[O_PATH, O_RDONLY | O_NONBLOCK, O_WRONLY | O_NONBLOCK, O_RDONLY | O_DIRECTORY | O_NONBLOCK, O_PATH | O_NOFOLLOW, O_RDWR | O_NONBLOCK], &[0, RESOLVE_NO_SYMLINKS], false));
            }
            if let Some(o) = only { let want: Op = serde_json::from_value(o["op"].clone()).map_err(|e| Mach(format!("bad replay op: {}", e)))?; cases.retain(|c| c.op == want); }
            let oracle_op = |c: &LCase| {
                let fl = match c.op.name.as_str() { "resolve" => O_PATH, "resolve_nofollow" | "readlink" => O_PATH | O_NOFOLLOW, _ => c.op.flags.unwrap_or(0) };
                let mut o = Op::new("raw_openat2").root(ROOT_IN).path(c.op.path.as_deref().unwrap_or("")).flags(fl).rflags(RESOLVE_IN_ROOT | RESOLVE_NO_MAGICLINKS | c.op.rflags.unwrap_or(0));
                if c.op.name == "readlink" { o = o.itype("readlink"); }
                o
            };
            let ops: Vec<Op> = cases.iter().map(|c| c.op.clone()).collect();
            let mut ko = ku.call(ops.clone())?;
            let mut eo = eu.call(ops)?;
            let oo = ou.call(cases.iter().map(oracle_op).collect())?;
            for (i, c) in cases.iter().enumerate() {
                if let Some(h) = &oo[i].harness_error { return mach(format!("oracle worker: {}", h)); }
                let mut want = got_of(&oo[i]);
                res.evaluations += 2; res.nontrivial += 1;
                let cmp = |w: &Want, g: &Want| if c.op.name == "open_subpath" { (w.clone(), g.clone()) } else { (strip_fl(w), strip_fl(g)) };
                for (bk, obs_list, wk) in [("K", &mut ko, &mut ku), ("E", &mut eo, &mut eu)] {
                    let mut got = got_of(&obs_list[i]);
                    let mut tries = 0;
                    while cmp(&want, &got).0 != cmp(&want, &got).1 && tries < 4 {
                        obs_list[i] = wk.one(c.op.clone())?; got = got_of(&obs_list[i]); want = got_of(&ou.one(oracle_op(c))?); tries += 1;
                        if !is_transient(&got) && !is_transient(&want) && tries >= 2 { break; }
                    }
                    res.outcome(format!("{}:{}:{}", who, c.op.name, cls(&got)));
                    let replay = json!({"engine": "lookup", "item": idx, "tree_idx": 999_100 + which as u64, "tree": tree_text, "path": c.op.path, "op": c.op, "backend": bk, "caller": who});
                    if obs_list[i].panic.is_some() { res.violate(format!("{}:{}:panic", bk, c.op.name), format!("panic (caller {}) {}: {:?}", who, c.op.brief(), obs_list[i].panic), replay.clone()); continue; }
                    if let Some(h) = &obs_list[i].harness_error { return mach(format!("worker {}: {}", bk, h)); }
                    let (cw, cg) = cmp(&want, &got);
                    if prop == "C01" && cw != cg {
                        res.violate(format!("{}:{}:caller-{}:{}->{}", bk, c.op.name, who, cls(&want), cls(&got)), format!("caller {} on tree [{}] {} on backend {}: the kernel's in-root resolution for this caller gives {}, libpathrs gives {} ({})", who, tree_text, c.op.brief(), bk, want_text(&want, &labels_u), want_text(&got, &labels_u), obs_list[i].msg.clone().unwrap_or_default()), replay.clone());
                    }
                }
                if prop == "C04" {
                    let (gk, ge) = (got_of(&ko[i]), got_of(&eo[i]));
                    if gk != ge || ko[i].kind != eo[i].kind {
                        res.violate(format!("lookup:{}:caller-{}:K={}/{} E={}/{}", c.op.name, who, short(&gk), ko[i].kind.clone().unwrap_or_default(), short(&ge), eo[i].kind.clone().unwrap_or_default()), format!("caller {} on tree [{}] {}: kernel backend gives {} ({}), emulated backend gives {} ({})", who, tree_text, c.op.brief(), want_text(&gk, &labels_u), ko[i].msg.clone().unwrap_or_default(), want_text(&ge, &labels_u), eo[i].msg.clone().unwrap_or_default()),
                            json!({"engine": "lookup", "item": idx, "tree_idx": 999_100 + which as u64, "path": c.op.path, "op": c.op, "caller": who}));
                    }
                }
            }
            // make everything removable again for the next tree
            for (p, k, _, _) in ents.iter() { if *k == "d" { let full = cs(&format!("{}/{}", root_out, p)); unsafe { libc::chmod(full.as_ptr(), 0o755) }; } }
            res.count("trees", 1);
        }
        clear_dir(&root_out)?;
    }
    res.states = seen_states.len() as u64;
    // nothing outside the root may have changed during a sweep of pure lookups
    let outside_after = snapshot_outside()?;
    let d = diff(&outside_before, &outside_after);
    if !d.is_empty() {
        res.violate("outside-modified", format!("lookups modified the filesystem outside the root: {}", d.text()), json!({"engine": "lookup", "item": idx}));
    }
    Ok(res)
}

/// resolve/resolve_nofollow return O_PATH handles: C01 is about the object, not about status flags of the handle
fn strip_fl(w: &Want) -> Want {
    match w { Want::Obj { dev, ino, .. } => Want::Obj { dev: *dev, ino: *ino, getfl: 0 }, o => o.clone() }
}

fn cls(w: &Want) -> String {
    match w { Want::Obj { .. } | Want::Text(_) => "ok".into(), Want::Err(e) => errname(*e) }
}

fn short(w: &Want) -> String {
    match w { Want::Obj { getfl, .. } => format!("ok(fl={:x})", getfl), Want::Text(_) => "ok".into(), Want::Err(e) => errname(*e) }
}

/// Snapshot of everything in the jail's /w except the root's own contents.
pub fn snapshot_outside() -> MResult<Snap> {
    let mut s = snapshot(&out("/w"))?;
    let pre = "outer/parent/root/";
    s.retain(|k, _| !k.starts_with(pre));
    Ok(s)
}

pub fn report(prop: &str, tier: &str) -> Report {
    let sc = scope(tier);
    let c01 = prop == "C01";
    Report {
        level: if c01 { "model_checking" } else { "exploration" },
        rule: format!("every tree of the generator ({} trees: top-level names a,b each in {{absent,file,fifo,dir,dir+child,link(body)}} over {} link bodies, plus 39/40/41/42-link chains, plus special trees with their own path lists: names ending in ' (deleted)', control characters / backslashes / dots / 255-byte names, a four-level tree with every path of <= 4 components over {{a,b,..}}, nested link bodies; plus a tree containing a procfs mount, a tree containing tmpfs and bind mounts, a root that is a mount point and a root that is the caller's '/'; API flavour (RootRef, owned Root, clone of either) rotated over the work items) x every path of the generator ({} strings: all sequences of <= {} components over {{a,b,x,.,..}} with leading/trailing '/' decorations, empty path, empty components, 255/256-byte names, a 4081-byte path) x {{resolve, resolve_nofollow, readlink, open_subpath x flag sets}} x resolver flags {{0, NO_SYMLINKS}} x backends {{kernel openat2, emulated (openat2 -> ENOSYS)}}; a case is non-trivial if the walk follows a symlink, contains '..' or ends in ELOOP/ENOTDIR; cases are distinct by construction (tree, path, op)",
            sc.trees.len(), bodies(sc.thorough).len(), sc.paths.len(), if sc.thorough { 3 } else { 2 }),
        assumptions: vec![
            "the running kernel's openat2(RESOLVE_IN_ROOT|RESOLVE_NO_MAGICLINKS) is the definition of in-root resolution (Linux 6.18)".into(),
            "kernel-without-openat2 is simulated by a seccomp filter answering ENOSYS to openat2 in the worker process".into(),
            "small-scope hypothesis: names {a,b}, depth 2, the listed link bodies".into(),
        ],
        exhaustive: true,
        extra: json!({"trees": sc.trees.len(), "paths": sc.paths.len(), "states_rule": "states = distinct (tree, path, follow-mode, flags) configurations of the reference-model walk machine; transitions = component steps it took; every model run is validated against the kernel, then against both backends"}),
    }
}
