//! Client side of long-lived `worker serve` processes (the K / E pair of treemc).

use crate::sys::*;
use proto::*;
use std::io::Write;
use std::os::unix::io::AsRawFd;
use std::process::{Child, ChildStdin, ChildStdout, Command, Stdio};

pub fn worker_bin() -> String {
    std::env::var("VMC_WORKER").unwrap_or_else(|_| "/verif/.build/harness/release/worker".into())
}

pub struct Wk {
    pub child: Child,
    stdin: ChildStdin,
    stdout: ChildStdout,
    buf: Vec<u8>,
    pub name: String,
    pub timeout_ms: i32,
}

impl Wk {
    pub fn spawn(name: &str, setup: &Setup) -> MResult<Wk> {
        let js = serde_json::to_string(setup).unwrap();
        let mut child = Command::new(worker_bin())
            .arg("serve")
            .arg(js)
            .stdin(Stdio::piped())
            .stdout(Stdio::piped())
            .stderr(Stdio::inherit())
            .env_remove("RUST_BACKTRACE")
            .spawn()
            .map_err(|e| Mach(format!("spawn worker: {}", e)))?;
        let stdin = child.stdin.take().unwrap();
        let stdout = child.stdout.take().unwrap();
        Ok(Wk { child, stdin, stdout, buf: Vec::new(), name: name.into(), timeout_ms: 180_000 })
    }

    /// Standard pair: K = kernel as is, E = openat2 answers ENOSYS (selects the emulated resolvers for the whole process).
    pub fn kernel() -> MResult<Wk> {
        Wk::spawn("K", &Setup { jail: JAIL.into(), ..Default::default() })
    }
    pub fn emulated() -> MResult<Wk> {
        Wk::spawn("E", &Setup { jail: JAIL.into(), deny: vec!["openat2".into()], ..Default::default() })
    }

    /// What a container runtime with a seccomp profile older than these system calls does: they fail with EPERM, not ENOSYS.
    pub fn old_profile_deny() -> Vec<String> {
        ["openat2=EPERM", "fsopen=EPERM", "fsconfig=EPERM", "fsmount=EPERM", "open_tree=EPERM", "faccessat2=EPERM"].iter().map(|s| s.to_string()).collect()
    }
    /// The "kernel without openat2" worker of work item `idx`: every third item models the absence the way an old seccomp profile
    /// produces it (EPERM for openat2 and the new mount API) instead of ENOSYS.
    pub fn emulated_for(idx: usize) -> MResult<Wk> {
        if idx % 3 == 1 { Wk::spawn("E", &Setup { jail: JAIL.into(), deny: Wk::old_profile_deny(), ..Default::default() }) } else { Wk::emulated() }
    }

    pub fn call(&mut self, ops: Vec<Op>) -> MResult<Vec<Obs>> {
        let n = ops.len();
        self.send(ops)?;
        self.recv(n)
    }

    /// Requests are written by a helper thread-less path: large batches could fill the pipe while the worker is
    /// blocked writing its answer, so batches are limited by the callers to what fits (the worker reads a whole line first).
    pub fn send(&mut self, ops: Vec<Op>) -> MResult<()> {
        let req = Request { ops };
        let mut s = serde_json::to_string(&req).unwrap();
        s.push('\n');
        self.stdin.write_all(s.as_bytes()).map_err(|e| Mach(format!("write to worker {}: {}", self.name, e)))?;
        self.stdin.flush().ok();
        Ok(())
    }

    pub fn recv(&mut self, n: usize) -> MResult<Vec<Obs>> {
        // read one line with timeout
        let fd = self.stdout.as_raw_fd();
        loop {
            if let Some(pos) = self.buf.iter().position(|&b| b == b'\n') {
                let line: Vec<u8> = self.buf.drain(..=pos).collect();
                let resp: Response = serde_json::from_slice(&line).map_err(|e| Mach(format!("bad worker response: {}", e)))?;
                if resp.obs.len() != n { return mach("worker answered wrong number of observations"); }
                for o in &resp.obs {
                    if let Some(h) = &o.harness_error { return mach(format!("worker {} harness error: {}", self.name, h)); }
                }
                return Ok(resp.obs);
            }
            let mut pfd = libc::pollfd { fd, events: libc::POLLIN, revents: 0 };
            let r = unsafe { libc::poll(&mut pfd, 1, self.timeout_ms) };
            if r == 0 { return Err(Mach(format!("HANG: worker {} did not answer within {} ms", self.name, self.timeout_ms))); }
            if r < 0 { if errno() == libc::EINTR { continue; } return mach("poll failed"); }
            let mut tmp = [0u8; 65536];
            let k = unsafe { libc::read(fd, tmp.as_mut_ptr() as *mut libc::c_void, tmp.len()) };
            if k <= 0 { return mach(format!("worker {} died (read {})", self.name, k)); }
            self.buf.extend_from_slice(&tmp[..k as usize]);
        }
    }

    /// after the worker died: the signal that killed it (0 = it exited by itself)
    pub fn exit_signal(&mut self) -> i32 {
        use std::os::unix::process::ExitStatusExt;
        self.child.wait().ok().and_then(|s| s.signal()).unwrap_or(0)
    }

    pub fn one(&mut self, op: Op) -> MResult<Obs> {
        Ok(self.call(vec![op])?.pop().unwrap())
    }
}

impl Drop for Wk {
    fn drop(&mut self) {
        let _ = self.child.kill();
        let _ = self.child.wait();
    }
}
