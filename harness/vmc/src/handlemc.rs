//! C09: Handle::reopen / pathrs_reopen over inode types x flag sets x descriptor numbers x histories of
//! rename/replace/unlink applied to the handle's path between resolve and reopen (breadth-first over histories).

use crate::ev::*;
use crate::gen::*;
use crate::lookup::GETFL_MASK;
use crate::sys::*;
use crate::tree::*;
use crate::wk::Wk;
use proto::*;
use serde_json::{json, Value};
use std::collections::BTreeSet;
use std::os::unix::io::AsRawFd;

fn t9() -> TreeSpec {
    TreeSpec::default().file("f").dir("d").fifo("p").link("l", "f").add("n", Kind::Chr(0x0103)).add("s", Kind::Sock).file("g").dir("sub").dir("full").file("full/x")
}

const TARGETS: [&str; 7] = ["f", "d", "p", "l", "n", "s", "full"];

#[derive(Clone, Debug, PartialEq, Eq, PartialOrd, Ord)]
enum Step { RenameAway, ReplaceOver, Unlink, Recreate, Exchange, MoveOut }

const STEPS: [Step; 6] = [Step::RenameAway, Step::ReplaceOver, Step::Unlink, Step::Recreate, Step::Exchange, Step::MoveOut];

fn kind_of(x: &str) -> &'static str { match x { "d" | "full" => "dir", "p" => "fifo", "l" => "symlink", "n" => "chr", "s" => "sock", _ => "file" } }

/// apply one step to the entry named `x` in the root; returns false if not enabled in the current state
fn apply(step: &Step, x: &str, serial: &mut u32) -> MResult<bool> {
    let root = out(ROOT_IN);
    let p = format!("{}/{}", root, x);
    let exists = lstat(&p).is_some();
    *serial += 1;
    let r: Result<(), i32> = match step {
        Step::RenameAway => { if !exists { return Ok(false); } renameat2(&p, &format!("{}/{}.away{}", root, x, serial), libc::RENAME_NOREPLACE) }
        Step::ReplaceOver => {
            // another object of a compatible type renamed over the name
            if !exists { return Ok(false); }
            let other = format!("{}/other{}", root, serial);
            let c = cs(&other);
            let isdir = lstat(&p).map(|s| s.is_dir()).unwrap_or(false);
            let mk = unsafe { if isdir { libc::mkdir(c.as_ptr(), 0o755) } else { libc::mknod(c.as_ptr(), libc::S_IFREG | 0o644, 0) } };
            if mk != 0 { return mach("cannot create replacement"); }
            match renameat2(&other, &p, 0) { Ok(()) => Ok(()), Err(e) if e == libc::ENOTEMPTY || e == libc::EEXIST => { let _ = std::fs::remove_dir(&other); let _ = std::fs::remove_file(&other); return Ok(false); } Err(e) => Err(e) }
        }
        Step::Unlink => {
            if !exists { return Ok(false); }
            let c = cs(&p);
            let st = lstat(&p).unwrap();
            let r = unsafe { if st.is_dir() { libc::rmdir(c.as_ptr()) } else { libc::unlink(c.as_ptr()) } };
            if r != 0 { if errno() == libc::ENOTEMPTY { return Ok(false); } Err(errno()) } else { Ok(()) }
        }
        Step::Recreate => {
            if exists { return Ok(false); }
            let c = cs(&p);
            let r = unsafe { match kind_of(x) { "dir" => libc::mkdir(c.as_ptr(), 0o755), "fifo" => libc::mkfifo(c.as_ptr(), 0o644), "symlink" => { let t = cs("g"); libc::symlink(t.as_ptr(), c.as_ptr()) } "chr" => libc::mknod(c.as_ptr(), libc::S_IFCHR | 0o666, 0x0103), "sock" => libc::mknod(c.as_ptr(), libc::S_IFSOCK | 0o644, 0), _ => libc::mknod(c.as_ptr(), libc::S_IFREG | 0o644, 0) } };
            if r != 0 { Err(errno()) } else { Ok(()) }
        }
        Step::Exchange => { if !exists { return Ok(false); } renameat2(&p, &format!("{}/g", root), libc::RENAME_EXCHANGE) }
        Step::MoveOut => { if !exists { return Ok(false); } renameat2(&p, &format!("{}/moved-out-{}", out(PARENT_IN), serial), libc::RENAME_NOREPLACE) }
    };
    r.map_err(|e| Mach(format!("history step {:?} on {} failed: {}", step, x, errname(e))))?;
    Ok(true)
}

fn histories(maxlen: usize) -> Vec<Vec<Step>> {
    let mut all: Vec<Vec<Step>> = vec![vec![]];
    let mut frontier: Vec<Vec<Step>> = vec![vec![]];
    for _ in 0..maxlen {
        let mut next = Vec::new();
        for h in &frontier { for s in &STEPS { let mut n = h.clone(); n.push(s.clone()); next.push(n); } }
        all.extend(next.iter().cloned());
        frontier = next;
    }
    all
}

fn flagsets(th: bool, fifo: bool) -> Vec<i64> {
    let nb = if fifo { O_NONBLOCK } else { 0 };
    let mut v = vec![O_RDONLY | nb, O_WRONLY | O_NONBLOCK, O_RDWR | O_APPEND | nb, O_PATH, O_RDONLY | O_DIRECTORY | nb, O_RDONLY | O_NOFOLLOW | nb,
                     O_CREAT | O_WRONLY | nb, O_TMPFILE | O_RDWR | nb, O_CREAT | O_EXCL | O_RDWR | nb, (O_TMPFILE & !O_DIRECTORY) | O_RDWR | nb];
    // combinations openat(2) accepts silently (the kernel's /proc re-open is the reference for all of them)
    v.extend_from_slice(&[O_PATH | O_RDWR, O_PATH | O_APPEND, O_RDONLY | 0x4000_0000 | nb]);
    if th { v.extend_from_slice(&[O_RDONLY | O_NOATIME | nb, O_WRONLY | O_SYNC | O_NONBLOCK, O_RDWR | nb, O_PATH | O_DIRECTORY, O_RDONLY | O_NOCTTY | nb, O_EXCL | O_RDONLY | nb, O_WRONLY | O_DSYNC | O_APPEND | O_NONBLOCK, O_PATH | O_NOFOLLOW]); }
    v
}

struct HScope { fdnums: Vec<i64>, hist: Vec<Vec<Step>>, th: bool }

fn scope(tier: &str) -> HScope {
    let th = tier == "thorough";
    HScope { fdnums: if th { vec![0, 1, 2, 3, 63, 64, 1023] } else { vec![0, 1, 3, 64, 1023] }, hist: histories(if th { 5 } else { 3 }), th }
}

/// items: (target, fd number, worker kind)
fn item_list(tier: &str) -> Vec<(String, i64, &'static str)> {
    let sc = scope(tier);
    let mut v = Vec::new();
    for t in TARGETS { for n in &sc.fdnums { for w in ["K", "E"] { v.push((t.to_string(), *n, w)); } } }
    // host /proc states other than "normal" (the worker's /proc is the jail's): a tmpfs over all of /proc, and a directory of
    // look-alike links bind-mounted over /proc/<pid>/fd and /proc/<pid>/task/<tid>/fd. Worker kinds: callers that get a private
    // procfs (K, E, and K on a kernel whose fsconfig refuses hidepid=/subset=) - for them nothing may change - and a caller
    // without the new mount API, for whom the mounts may only turn the call into an error.
    for t in ["f", "d"] {
        for w in ["K+tmpfs-proc", "E+tmpfs-proc", "K-oldfsconfig+tmpfs-proc", "K+fd-overmount", "E+fd-overmount", "K-oldfsconfig+fd-overmount", "K-nomountapi+fd-overmount"] {
            v.push((t.to_string(), 64, w));
        }
    }
    // symlinks bind-mounted over /proc/thread-self and /proc/self that point at ANOTHER process, which holds a decoy file on the
    // very descriptor number of the handle: callers that see the host /proc (no new mount API; with and without openat2)
    for w in ["K-nomountapi+self-links", "E-nomountapi+self-links", "K+self-links", "E+self-links"] { v.push(("f".to_string(), 64, w)); v.push(("d".to_string(), 3, w)); }
    v
}

pub fn n_items(tier: &str) -> usize { item_list(tier).len() }

pub fn run_item(tier: &str, idx: usize, only: Option<&Value>) -> MResult<ItemResult> {
    let (target, fdnum, wkind) = item_list(tier)[idx].clone();
    match run_item_inner(tier, idx, only) {
        // with a disturbed host /proc even the preparatory calls (resolve, try_clone) may kill the process: that is a finding about
        // the library, not about the machinery
        Err(Mach(m)) if m.contains("died") && wkind.contains('+') => {
            let mut res = ItemResult::default();
            res.evaluations = 1; res.nontrivial = 1;
            res.violate(format!("{}:crash:setup", wkind), format!("{} handle to {} at descriptor {}: the calling process died during the preparatory library calls ({})", wkind, target, fdnum, m),
                json!({"engine": "handlemc", "item": idx, "target": target, "fd": fdnum, "worker": wkind}));
            Ok(res)
        }
        // with a disturbed host /proc the preparatory resolve may fail (an error is all the property allows there): nothing to re-open
        Err(Mach(m)) if m.contains("no such handle") && wkind.contains('+') => {
            let mut res = ItemResult::default();
            res.count("setup_failed_under_disturbed_proc", 1);
            Ok(res)
        }
        r => r,
    }
}

fn run_item_inner(tier: &str, idx: usize, only: Option<&Value>) -> MResult<ItemResult> {
    let sc = scope(tier);
    let (target, fdnum, wkind) = item_list(tier)[idx].clone();
    let mut res = ItemResult::default();
    enter_jail()?;
    crate::lookup::build_decoys()?;
    let (wbase, hoststate) = match wkind.split_once('+') { Some((a, b)) => (a, b), None => (wkind, "normal") };
    if hoststate == "tmpfs-proc" {
        // everything below the jail's /proc disappears behind an empty tmpfs
        let (src, tgt, typ) = (cs("tmpfs"), cs(&format!("{}/proc", JAIL)), cs("tmpfs"));
        if unsafe { libc::mount(src.as_ptr(), tgt.as_ptr(), typ.as_ptr(), 0, std::ptr::null()) } != 0 { return mach(format!("mount tmpfs over the jail's /proc: errno {}", errno())); }
    }
    let mut w = match wbase {
        "K" => Wk::kernel()?,
        "E" => Wk::emulated()?,
        "K-oldfsconfig" => Wk::spawn(wkind, &Setup { jail: JAIL.into(), deny: vec!["fsconfig_set_string".into()], ..Default::default() })?,
        "K-nomountapi" => Wk::spawn(wkind, &Setup { jail: JAIL.into(), deny: vec!["fsopen".into(), "open_tree".into()], ..Default::default() })?,
        "E-nomountapi" => Wk::spawn(wkind, &Setup { jail: JAIL.into(), deny: vec!["openat2".into(), "fsopen".into(), "open_tree".into()], ..Default::default() })?,
        o => return mach(format!("unknown worker kind {}", o)),
    };
    let private_procfs = !wbase.ends_with("-nomountapi");
    if hoststate == "fd-overmount" {
        // before the library is used for the first time (an open_tree clone would copy the mounts that exist at that moment)
        let pid = w.one(Op::new("getpid"))?.ret.unwrap_or(0);
        let dec = format!("{}/fd-lookalikes", JAIL);
        let _ = std::fs::create_dir_all(&dec);
        for n in 0..1100 { let _ = std::os::unix::fs::symlink("/w/outer/parent/secret", format!("{}/{}", dec, n)); }
        for t in [format!("{}/proc/{}/fd", JAIL, pid), format!("{}/proc/{}/task/{}/fd", JAIL, pid, pid)] {
            let (src, tgt) = (cs(&dec), cs(&t));
            if unsafe { libc::mount(src.as_ptr(), tgt.as_ptr(), std::ptr::null(), libc::MS_BIND, std::ptr::null()) } != 0 { return mach(format!("bind look-alikes over {}: errno {}", t, errno())); }
        }
    }
    // kept alive until the item ends: the other process the planted links point at
    let mut _decoy_holder: Option<Wk> = None;
    if hoststate == "self-links" {
        let mut d = Wk::kernel()?;
        let dpid = d.one(Op::new("getpid"))?.ret.unwrap_or(0);
        // the decoy on the number of the handle under test, and on its neighbours
        for n in [fdnum, fdnum + 1, 4, 5, 6, 7, 8, 9, 10] {
            let k = format!("decoy{}", n);
            d.one(Op::new("raw_open").path("/w/outer/parent/secret").flags(O_RDONLY).keep(&k))?;
            d.one(Op::new("handle_at_fd").handle(&k).num(n))?;
        }
        let links = format!("{}/self-links", JAIL);
        let _ = std::fs::create_dir_all(&links);
        let _ = std::os::unix::fs::symlink(format!("{}/task/{}", dpid, dpid), format!("{}/thread-self", links));
        let _ = std::os::unix::fs::symlink(format!("{}", dpid), format!("{}/self", links));
        for name in ["thread-self", "self"] {
            // a symlink can only be mounted on a symlink through O_PATH|O_NOFOLLOW descriptors of both
            let (sc_, tc_) = (cs(&format!("{}/{}", links, name)), cs(&format!("{}/proc/{}", JAIL, name)));
            let (sfd, tfd) = unsafe { (libc::open(sc_.as_ptr(), libc::O_PATH | libc::O_NOFOLLOW | libc::O_CLOEXEC), libc::open(tc_.as_ptr(), libc::O_PATH | libc::O_NOFOLLOW | libc::O_CLOEXEC)) };
            if sfd < 0 || tfd < 0 { return mach("open link / mount point for the self-links state"); }
            let (sp, tp) = (cs(&format!("/proc/self/fd/{}", sfd)), cs(&format!("/proc/self/fd/{}", tfd)));
            let r = unsafe { libc::mount(sp.as_ptr(), tp.as_ptr(), std::ptr::null(), libc::MS_BIND, std::ptr::null()) };
            let e = errno();
            unsafe { libc::close(sfd); libc::close(tfd); }
            if r != 0 { return mach(format!("bind a symlink over /proc/{}: errno {}", name, e)); }
        }
        _decoy_holder = Some(d);
    }
    let root_out = out(ROOT_IN);
    // keep the Root's own descriptor away from the numbers under test
    w.one(Op::new("root_at_fd").root(ROOT_IN).num(800))?;
    let tree = t9();
    let fifo = target == "p";
    let flags = flagsets(sc.th, fifo);
    let mut states: BTreeSet<u64> = BTreeSet::new();
    // histories of non-file targets are kept to length <= 1 in the quick tier
    let maxlen = if sc.th { if matches!(target.as_str(), "f" | "d") { 5 } else { 3 } } else if matches!(target.as_str(), "f" | "d" | "full") { 3 } else { 2 };
    for (hi, h) in sc.hist.iter().enumerate() {
        if h.len() > maxlen || (hoststate != "normal" && h.len() > 1) { continue; }
        if let Some(o) = only { if o["history_index"].as_u64() != Some(hi as u64) { continue; } }
        clear_dir(&root_out)?;
        // leftovers of "move out" steps
        for e in std::fs::read_dir(out(PARENT_IN)).map_err(|e| Mach(e.to_string()))?.flatten() { let n = e.file_name().to_string_lossy().into_owned(); if n.starts_with("moved-out-") { let p = e.path(); if p.is_dir() { let _ = std::fs::remove_dir_all(&p); } else { let _ = std::fs::remove_file(&p); } } }
        tree.build(&root_out)?;
        let xpath = format!("{}/{}", root_out, target);
        let ident = lstat(&xpath).ok_or_else(|| Mach("target missing".into()))?;
        let hfd = open_path(&xpath)?; // the harness's own pin on the inode (O_PATH|O_NOFOLLOW)
        w.one(Op::new("occupy_low"))?;
        // (with links planted over /proc/self and /proc/thread-self the emulated lookup itself is refused: the handle is then one the
        // caller obtained by other means - a plain O_PATH open, as with Handle::from_fd)
        let r = if hoststate == "self-links" { w.one(Op::new("raw_open").path(&format!("{}/{}", ROOT_IN, target)).flags(O_PATH).keep("h"))? } else { w.one(Op::new(if target == "l" { "resolve_nofollow" } else { "resolve" }).root(ROOT_IN).path(&target).keep("h"))? };
        if let Some(p) = &r.panic {
            // the preparatory lookup itself panicked (only possible with a disturbed host /proc): that is the library's doing
            res.violate(format!("{}:panic:setup", wkind), format!("{} preparatory resolve of {}: panic {}", wkind, target, p), json!({"engine": "handlemc", "item": idx, "target": target, "fd": fdnum, "worker": wkind}));
            return Ok(res);
        }
        if !r.ok || r.fd.as_ref().map(|f| (f.dev, f.ino)) != Some((ident.dev, ident.ino)) { return mach(format!("no such handle: setup resolve of {} failed: {:?}", target, r.msg)); }
        w.one(Op::new("handle_at_fd").handle("h").num(fdnum))?;
        // apply the history
        let mut serial = 0u32;
        let mut enabled = true;
        for s in h { if !apply(s, &target, &mut serial)? { enabled = false; break; } }
        if !enabled { w.one(Op::new("close_handle").handle("h"))?; continue; }
        let before = snapshot(&out("/w"))?;
        states.insert(hash64(&format!("{:?}|{}", canon(&before), before.iter().find(|(_, n)| n.ino == ident.ino && n.dev == ident.dev).map(|(p, _)| p.clone()).unwrap_or_else(|| "<unlinked>".into()))));
        for api in ["rust", "c"] {
            for &fl in &flags {
                let mut op = Op::new("reopen").handle("h").flags(fl);
                if api == "c" { op = op.capi(); } else { op.via = crate::gen::api_flavour("C09", idx); }
                if let Some(o) = only { let want: Op = serde_json::from_value(o["op"].clone()).map_err(|e| Mach(e.to_string()))?; if want != op { continue; } }
                let obs = match w.one(op.clone()) {
                    Ok(o) => o,
                    Err(Mach(m)) if m.contains("died") => {
                        // the process is gone (abort, stack overflow, ...): a violation, not a machinery problem; the item ends here
                        let st = w.exit_signal();
                        res.violate(format!("{}:crash:sig{}", wkind, st), format!("{} handle to {} at descriptor {} after history {:?}: {}: the calling process died (signal {}) instead of getting a result", wkind, target, fdnum, h, op.brief(), st),
                            json!({"engine": "handlemc", "item": idx, "history_index": hi, "history": format!("{:?}", h), "target": target, "fd": fdnum, "worker": wkind, "op": op}));
                        res.states = states.len() as u64;
                        return Ok(res);
                    }
                    Err(e) => return Err(e),
                };
                res.evaluations += 1;
                res.transitions += 1;
                let creation = fl & (O_CREAT | O_EXCL) != 0 || fl & (O_TMPFILE & !O_DIRECTORY) != 0;
                // expectation from the kernel, through the harness's own pin
                let expect: Result<i32, i32> = if target == "l" { Err(libc::ELOOP) } else {
                    let c = cs(&format!("/proc/self/fd/{}", hfd.as_raw_fd()));
                    let fd = unsafe { libc::open(c.as_ptr(), (fl & !O_NOFOLLOW) as i32 | libc::O_CLOEXEC | libc::O_NOCTTY) };
                    if fd >= 0 { let g = getfl(fd) & GETFL_MASK; unsafe { libc::close(fd) }; Ok(g) } else { Err(errno()) }
                };
                let replay = json!({"engine": "handlemc", "item": idx, "history_index": hi, "history": format!("{:?}", h), "target": target, "fd": fdnum, "worker": wkind, "op": op});
                let desc = format!("{} handle to {} ({}) at descriptor {} after history {:?}: {}", wkind, target, kind_of(&target), fdnum, h, op.brief());
                let klass = |o: &Obs| if o.ok { "ok".to_string() } else { errname(o.errno.unwrap_or(-1)) };
                res.outcome(format!("{}:{}:{}", kind_of(&target), flagnames(fl), klass(&obs)));
                if h.len() > 0 || creation || fdnum < 3 { res.nontrivial += 1; }
                if let Some(p) = &obs.panic { res.violate(format!("{}:panic", wkind), format!("{}: panic {}", desc, p), replay); continue; }
                if creation {
                    // documented as refused; nothing may be created
                    let after = snapshot(&out("/w"))?;
                    let d = diff(&before, &after);
                    if obs.ok { res.violate(format!("{}:creation-flags-accepted:{}", wkind, flagnames(fl & (O_CREAT | O_EXCL | O_TMPFILE))), format!("{}: succeeded although creation flags must be refused (returned {:?})", desc, obs.fd.as_ref().map(|f| (f.ino, f.nlink))), replay); }
                    else if !d.is_empty() { res.violate(format!("{}:creation-flags-effect", wkind), format!("{}: failed but changed the tree: {}", desc, d.text()), replay); }
                    continue;
                }
                match (&expect, obs.ok) {
                    (Ok(g), true) => {
                        let fd = obs.fd.as_ref().unwrap();
                        if (fd.dev, fd.ino) != (ident.dev, ident.ino) { res.violate(format!("{}:wrong-inode", wkind), format!("{}: returned a different inode ({:?}) than the handle refers to", desc, fd.procpath), replay); }
                        else if fd.getfl & GETFL_MASK != *g { res.violate(format!("{}:flags", wkind), format!("{}: F_GETFL 0x{:x}, expected 0x{:x}", desc, fd.getfl & GETFL_MASK, g), replay); }
                        else if !fd.cloexec { res.violate(format!("{}:no-cloexec", wkind), format!("{}: result is not close-on-exec", desc), replay); }
                    }
                    (Err(_), false) if !private_procfs => {}
                    (Ok(_), false) if !private_procfs => { res.count("overmount_turned_into_error", 1); }
                    (Err(e), false) => { if obs.errno != Some(*e) { res.violate(format!("{}:errno:want={}:got={}", wkind, errname(*e), klass(&obs)), format!("{}: failed with {} ({}), the kernel's answer for this inode and flags is {}", desc, klass(&obs), obs.msg.clone().unwrap_or_default(), errname(*e)), replay); } }
                    (Ok(_), false) => { res.violate(format!("{}:fails:fd{}:{}", wkind, if fdnum == 0 { "0" } else { "N" }, klass(&obs)), format!("{}: failed with {} ({}) although re-opening this inode with these flags works", desc, klass(&obs), obs.msg.clone().unwrap_or_default()), replay); }
                    (Err(e), true) => { res.violate(format!("{}:unexpected-success:{}", wkind, errname(*e)), format!("{}: succeeded, the kernel's answer is {}", desc, errname(*e)), replay); }
                }
                if res.samples.len() < 3 && !h.is_empty() { res.sample(json!({"target": target, "fd": fdnum, "history": format!("{:?}", h), "op": op.brief(), "result": klass(&obs), "kernel": format!("{:?}", expect)})); }
            }
        }
        // the same handle re-opened from a thread with its own descriptor table (the leader holds a decoy at that number)
        if target != "l" {
            for api in ["rust", "c"] {
                let mut op = Op::new("reopen_unshared").handle("h").flags(if fifo { O_RDONLY | O_NONBLOCK } else if kind_of(&target) == "sock" { O_PATH } else { O_RDONLY }).num(50).path2("/w/outer/parent/secret");
                if api == "c" { op = op.capi(); }
                if let Some(o) = only { let want: Op = serde_json::from_value(o["op"].clone()).map_err(|e| Mach(e.to_string()))?; if want != op { continue; } }
                let obs = w.one(op.clone())?;
                res.evaluations += 1;
                res.nontrivial += 1;
                let replay = json!({"engine": "handlemc", "item": idx, "history_index": hi, "history": format!("{:?}", h), "target": target, "fd": fdnum, "worker": wkind, "op": op});
                if obs.ok {
                    let fd = obs.fd.as_ref().unwrap();
                    if (fd.dev, fd.ino) != (ident.dev, ident.ino) { res.violate(format!("{}:wrong-inode:unshared-fd-table", wkind), format!("{} handle to {} re-opened from a thread with an unshared descriptor table: got {:?} (the thread-group leader's descriptor with the same number) instead of the handle's inode", wkind, target, fd.procpath), replay); }
                } else if obs.panic.is_some() { res.violate(format!("{}:panic", wkind), format!("panic {:?}", obs.panic), replay); }
            }
        }
        w.one(Op::new("close_handle").handle("h"))?;
    }
    res.states = states.len() as u64;
    res.traces_validated = res.evaluations;
    Ok(res)
}

pub fn report(tier: &str) -> Report {
    let sc = scope(tier);
    Report {
        level: "model_checking",
        rule: format!("inode types {{file, empty dir, non-empty dir, fifo, symlink handle, char device, socket}} x descriptor numbers {:?} x backends {{openat2, emulated}} x histories = all sequences of <= {} steps (files/directories; one fewer for the other types) over {{rename away, rename another object over the name, unlink, create the name again, exchange with a sibling, move out of the root}} applied between resolve and reopen (non-enabled sequences skipped) x {} flag sets (incl. O_CREAT/O_EXCL/O_TMPFILE) x {{Rust Handle::reopen, C pathrs_reopen}}; expectation = the kernel's own answer for open(/proc/self/fd/<pin>) on a descriptor the harness holds for the same inode; states = distinct (tree, location of the handle's inode); non-trivial = non-empty history, creation flags or descriptor 0/1/2",
            sc.fdnums, if sc.th { 5 } else { 3 }, flagsets(sc.th, false).len()),
        assumptions: vec!["the kernel's /proc/self/fd re-open is the reference for 'same inode, requested flags'".into(), "host /proc over-mounts are covered under C06".into()],
        exhaustive: true,
        extra: json!({"histories": sc.hist.len()}),
    }
}
