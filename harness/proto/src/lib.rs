//! Wire protocol between the model checker (`vmc`) and the only process that links libpathrs (`worker`).
//! One JSON document per line in each direction.

use serde::{Deserialize, Serialize};

/// How a worker process prepares itself before its first libpathrs call.
#[derive(Serialize, Deserialize, Clone, Debug, Default)]
pub struct Setup {
    /// chroot into this directory first (the tmpfs jail). Empty = no chroot (never used by checks).
    pub jail: String,
    /// syscalls answered with ENOSYS by a seccomp filter installed before the first library call
    /// ("openat2", "fsopen", "open_tree", "fsmount", "fsconfig", "statx_mnt_id" is not possible by seccomp).
    #[serde(default)]
    pub deny: Vec<String>,
    /// setresgid/setresuid to this id (0 = stay root)
    #[serde(default)]
    pub uid: u32,
    #[serde(default)]
    pub gid: u32,
    /// drop every capability (only meaningful with uid 0: "root without DAC_OVERRIDE/FOWNER")
    #[serde(default)]
    pub drop_caps: bool,
    /// RLIMIT_NOFILE soft=hard
    #[serde(default)]
    pub rlimit_nofile: Option<u64>,
    /// umask to set
    #[serde(default)]
    pub umask: Option<u32>,
    /// mark the process dumpable again after setuid (so that the supervisor can read /proc/<pid>/fd)
    #[serde(default)]
    pub keep_dumpable: bool,
    /// become root of a fresh user namespace owning fresh mount and pid namespaces (a rootless-container caller);
    /// the worker proper is pid 2 of the new pid namespace (two forks; a traced worker is followed through them)
    #[serde(default)]
    pub userns: bool,
    /// one-shot mode: run the operation from a thread that has its OWN descriptor table (unshare(CLONE_FILES)) while the
    /// thread-group leader holds descriptors of this directory on the numbers the thread is going to use (look-alikes for
    /// anything that inspects /proc/self/fd instead of /proc/thread-self/fd). Format "first|rest": the lowest free number gets
    /// `first` (where a resolver keeps its copy of the root), 47 more get `rest`. A traced worker is followed into the thread.
    #[serde(default)]
    pub thread_decoy: Option<String>,
}

#[derive(Serialize, Deserialize, Clone, Debug, Default, PartialEq, Eq)]
pub struct Op {
    /// "rust" or "c"
    #[serde(default)]
    pub api: String,
    /// operation name, see worker/src/main.rs
    pub name: String,
    #[serde(default, skip_serializing_if = "Option::is_none")]
    pub root: Option<String>,
    #[serde(default, skip_serializing_if = "Option::is_none")]
    pub path: Option<String>,
    #[serde(default, skip_serializing_if = "Option::is_none")]
    pub path2: Option<String>,
    #[serde(default, skip_serializing_if = "Option::is_none")]
    pub flags: Option<i64>,
    #[serde(default, skip_serializing_if = "Option::is_none")]
    pub mode: Option<u32>,
    #[serde(default, skip_serializing_if = "Option::is_none")]
    pub dev: Option<u64>,
    #[serde(default, skip_serializing_if = "Option::is_none")]
    pub rflags: Option<u64>,
    #[serde(default, skip_serializing_if = "Option::is_none")]
    pub itype: Option<String>,
    #[serde(default, skip_serializing_if = "Option::is_none")]
    pub handle: Option<String>,
    #[serde(default, skip_serializing_if = "Option::is_none")]
    pub keep: Option<String>,
    #[serde(default, skip_serializing_if = "Option::is_none")]
    pub base: Option<String>,
    #[serde(default, skip_serializing_if = "Option::is_none")]
    pub bufsize: Option<i64>,
    #[serde(default, skip_serializing_if = "Option::is_none")]
    pub num: Option<i64>,
    #[serde(default, skip_serializing_if = "Option::is_none")]
    pub procfs: Option<String>,
    /// report the descriptor table before/after this op
    #[serde(default, skip_serializing_if = "std::ops::Not::not")]
    pub fdtable: bool,
    /// which flavour of the Rust API performs the operation: None = RootRef (borrowed) with with_resolver_flags; "owned" = the
    /// Root's own methods after set_resolver_flags; "clone" = RootRef::try_clone() of the flagged reference, then the clone's own
    /// methods; "clone2" = Root::try_clone() of the flagged Root
    #[serde(default, skip_serializing_if = "Option::is_none")]
    pub via: Option<String>,
}

#[derive(Serialize, Deserialize, Clone, Debug, Default, PartialEq, Eq)]
pub struct FdInfo {
    pub fd: i32,
    pub dev: u64,
    pub ino: u64,
    pub mode: u32,
    pub nlink: u64,
    pub uid: u32,
    pub size: i64,
    pub getfl: i32,
    pub cloexec: bool,
    /// link body if the descriptor is a symlink (readlinkat(fd, ""))
    #[serde(default, skip_serializing_if = "Option::is_none")]
    pub link: Option<String>,
    pub fstype: i64,
    pub mnt_id: u64,
    /// readlink of /proc/self/fd/N as seen inside the jail
    #[serde(default, skip_serializing_if = "Option::is_none")]
    pub procpath: Option<String>,
}

#[derive(Serialize, Deserialize, Clone, Debug, Default, PartialEq, Eq)]
pub struct FdEnt {
    pub fd: i32,
    pub dev: u64,
    pub ino: u64,
    pub cloexec: bool,
}

#[derive(Serialize, Deserialize, Clone, Debug, Default, PartialEq, Eq)]
pub struct CErr {
    pub errno: u64,
    pub desc: String,
    /// a second pathrs_errorinfo(id) returned NULL
    pub second_null: bool,
}

#[derive(Serialize, Deserialize, Clone, Debug, Default, PartialEq, Eq)]
pub struct Obs {
    pub ok: bool,
    /// Debug form of pathrs::error::ErrorKind (Rust API) / "CError" (C API)
    #[serde(default, skip_serializing_if = "Option::is_none")]
    pub kind: Option<String>,
    #[serde(default, skip_serializing_if = "Option::is_none")]
    pub errno: Option<i32>,
    #[serde(default, skip_serializing_if = "Option::is_none")]
    pub msg: Option<String>,
    #[serde(default, skip_serializing_if = "Option::is_none")]
    pub fd: Option<FdInfo>,
    /// textual result (link body)
    #[serde(default, skip_serializing_if = "Option::is_none")]
    pub text: Option<String>,
    /// raw return of a C API call
    #[serde(default, skip_serializing_if = "Option::is_none")]
    pub ret: Option<i64>,
    #[serde(default, skip_serializing_if = "Option::is_none")]
    pub cerr: Option<CErr>,
    #[serde(default, skip_serializing_if = "Option::is_none")]
    pub panic: Option<String>,
    /// C readlink: bytes of the caller buffer that changed, canaries intact, content prefix ok
    #[serde(default, skip_serializing_if = "Option::is_none")]
    pub written: Option<i64>,
    #[serde(default, skip_serializing_if = "Option::is_none")]
    pub canary_ok: Option<bool>,
    #[serde(default, skip_serializing_if = "Vec::is_empty")]
    pub fds_before: Vec<FdEnt>,
    #[serde(default, skip_serializing_if = "Vec::is_empty")]
    pub fds_after: Vec<FdEnt>,
    /// machinery problem inside the worker (bad spec etc.) - never a verdict
    #[serde(default, skip_serializing_if = "Option::is_none")]
    pub harness_error: Option<String>,
}

#[derive(Serialize, Deserialize, Clone, Debug, Default)]
pub struct Request {
    pub ops: Vec<Op>,
}

#[derive(Serialize, Deserialize, Clone, Debug, Default)]
pub struct Response {
    pub obs: Vec<Obs>,
}

/// One-shot specification (sysmc): setup, warm-up operations, then exactly one operation between two SIGSTOPs.
#[derive(Serialize, Deserialize, Clone, Debug, Default)]
pub struct OneShot {
    pub setup: Setup,
    #[serde(default)]
    pub warmup: Vec<Op>,
    pub op: Op,
}

impl Op {
    pub fn new(name: &str) -> Op {
        Op { api: "rust".into(), name: name.into(), ..Default::default() }
    }
    pub fn root(mut self, r: &str) -> Op { self.root = Some(r.into()); self }
    pub fn path(mut self, p: &str) -> Op { self.path = Some(p.into()); self }
    pub fn path2(mut self, p: &str) -> Op { self.path2 = Some(p.into()); self }
    pub fn flags(mut self, f: i64) -> Op { self.flags = Some(f); self }
    pub fn mode(mut self, m: u32) -> Op { self.mode = Some(m); self }
    pub fn rflags(mut self, f: u64) -> Op { self.rflags = Some(f); self }
    pub fn itype(mut self, t: &str) -> Op { self.itype = Some(t.into()); self }
    pub fn handle(mut self, h: &str) -> Op { self.handle = Some(h.into()); self }
    pub fn keep(mut self, h: &str) -> Op { self.keep = Some(h.into()); self }
    pub fn base(mut self, b: &str) -> Op { self.base = Some(b.into()); self }
    pub fn capi(mut self) -> Op { self.api = "c".into(); self }
    pub fn num(mut self, n: i64) -> Op { self.num = Some(n); self }
    pub fn bufsize(mut self, n: i64) -> Op { self.bufsize = Some(n); self }
    pub fn procfs(mut self, p: &str) -> Op { self.procfs = Some(p.into()); self }
    pub fn fdtable(mut self) -> Op { self.fdtable = true; self }
    pub fn dev(mut self, d: u64) -> Op { self.dev = Some(d); self }
    /// compact human-readable form used in evidence samples and replay files
    pub fn brief(&self) -> String {
        let mut s = format!("{}:{}", if self.api == "c" { "c" } else { "rs" }, self.name);
        let ab = |p: &String| -> String { if p.len() > 64 { format!("{:?}...<{} bytes>", &p[..32], p.len()) } else { format!("{:?}", p) } };
        if let Some(p) = &self.path { s += &format!("({}", ab(p)); if let Some(q) = &self.path2 { s += &format!(",{}", ab(q)); } s += ")"; }
        if let Some(b) = &self.base { s += &format!(" base={}", b); }
        if let Some(f) = self.flags { s += &format!(" flags=0x{:x}", f); }
        if let Some(f) = self.rflags { if f != 0 { s += &format!(" rflags=0x{:x}", f); } }
        if let Some(m) = self.mode { s += &format!(" mode=0o{:o}", m); }
        if let Some(t) = &self.itype { s += &format!(" type={}", t); }
        if let Some(h) = &self.handle { s += &format!(" handle={}", h); }
        if let Some(n) = self.bufsize { s += &format!(" buf={}", n); }
        s
    }
}

impl Obs {
    /// compact outcome class: "ok" or "E<errno>/<kind>"
    pub fn class(&self) -> String {
        if let Some(p) = &self.panic { return format!("PANIC({})", p); }
        if self.ok { "ok".into() } else { format!("E{}/{}", self.errno.unwrap_or(-1), self.kind.clone().unwrap_or_default()) }
    }
}


/// Path strings travel as JSON (UTF-8). Bytes that are not valid UTF-8 are carried as private-use characters U+E000+byte
/// (`enc_bytes`), and turned back into the raw byte wherever a string becomes a path (`dec_path`). Ordinary text is unchanged.
pub fn dec_path(s: &str) -> Vec<u8> {
    let mut v = Vec::with_capacity(s.len());
    for ch in s.chars() {
        let c = ch as u32;
        if (0xE000..=0xE0FF).contains(&c) { v.push((c - 0xE000) as u8); } else { let mut b = [0u8; 4]; v.extend_from_slice(ch.encode_utf8(&mut b).as_bytes()); }
    }
    v
}

pub fn enc_bytes(b: &[u8]) -> String {
    let mut out = String::with_capacity(b.len());
    for chunk in b.utf8_chunks() {
        out.push_str(chunk.valid());
        for byte in chunk.invalid() { out.push(char::from_u32(0xE000 + *byte as u32).unwrap()); }
    }
    out
}
