fn main() {}
