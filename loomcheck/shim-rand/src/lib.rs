//! `rand` as the subject sees it: the real crate, except that `thread_rng()` replays a per-(loom-)thread script of raw
//! 32-bit words chosen by the explorer. Equal words give equal error ids, so collisions are forced, not hoped for.
pub use real_rand::*;

loom::thread_local! {
    static SCRIPT: std::cell::RefCell<(Vec<u32>, usize)> = std::cell::RefCell::new((Vec::new(), 0));
}

/// Install the script of the calling loom thread. When it runs out, words continue from a deterministic sequence
/// derived from the last word (so a retry loop always terminates).
pub fn set_script(words: Vec<u32>) {
    SCRIPT.with(|s| *s.borrow_mut() = (words, 0));
}

pub struct ScriptedRng;

impl RngCore for ScriptedRng {
    fn next_u32(&mut self) -> u32 {
        SCRIPT.with(|s| {
            let mut g = s.borrow_mut();
            let i = g.1;
            g.1 += 1;
            if i < g.0.len() { g.0[i] } else {
                let last = g.0.last().copied().unwrap_or(0x1234_5678);
                last.wrapping_add(0x9E37_79B9u32.wrapping_mul((i - g.0.len() + 1) as u32))
            }
        })
    }
    fn next_u64(&mut self) -> u64 { ((self.next_u32() as u64) << 32) | self.next_u32() as u64 }
    fn fill_bytes(&mut self, dest: &mut [u8]) { for c in dest.chunks_mut(4) { let w = self.next_u32().to_le_bytes(); c.copy_from_slice(&w[..c.len()]); } }
    fn try_fill_bytes(&mut self, dest: &mut [u8]) -> Result<(), Error> { self.fill_bytes(dest); Ok(()) }
}

pub fn thread_rng() -> ScriptedRng { ScriptedRng }
