//! `once_cell::sync::Lazy` on top of loom's lazy statics: initialisation is a modelled synchronisation point and the
//! value is re-created in every explored execution (so process-global state does not leak between executions).
pub mod sync {
    use std::marker::PhantomData;
    use std::ops::Deref;

    pub struct Lazy<T: 'static, F = fn() -> T> {
        inner: loom::lazy_static::Lazy<T>,
        _f: PhantomData<F>,
    }

    impl<T: 'static> Lazy<T, fn() -> T> {
        pub const fn new(init: fn() -> T) -> Self {
            Lazy { inner: loom::lazy_static::Lazy { init, _p: PhantomData }, _f: PhantomData }
        }
        pub fn force(this: &Self) -> &T { this.deref() }
    }

    impl<T: 'static, F: 'static> Deref for Lazy<T, F> {
        type Target = T;
        fn deref(&self) -> &T {
            // every Lazy in the subject is a `static`; loom's API demands the 'static lifetime explicitly
            let s: &'static Self = unsafe { &*(self as *const Self) };
            s.inner.get()
        }
    }

    // loom's Lazy is only a fn pointer + marker
    unsafe impl<T: 'static, F> Sync for Lazy<T, F> {}
    unsafe impl<T: 'static, F> Send for Lazy<T, F> {}
}
