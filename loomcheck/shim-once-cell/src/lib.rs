//! `once_cell::sync::Lazy` on top of loom's lazy statics: initialisation is a modelled synchronisation point and the
//! value is re-created in every explored execution (so process-global state does not leak between executions).
pub mod sync {
    use std::marker::PhantomData;
    use std::ops::Deref;

    pub struct Lazy<T: 'static, F = fn() -> T> {
        inner: loom::lazy_static::Lazy<T>,
        _f: PhantomData<F>,
    }

    impl<T: 'static> Lazy<T, fn() -> T> {
        pub const fn new(init: fn() -> T) -> Self {
            Lazy { inner: loom::lazy_static::Lazy { init, _p: PhantomData }, _f: PhantomData }
        }
        pub fn force(this: &Self) -> &T { this.deref() }
    }

    impl<T: 'static, F: 'static> Deref for Lazy<T, F> {
        type Target = T;
        fn deref(&self) -> &T {
            // every Lazy in the subject is a `static`; loom's API demands the 'static lifetime explicitly
            let s: &'static Self = unsafe { &*(self as *const Self) };
            s.inner.get()
        }
    }

    // loom's Lazy is only a fn pointer + marker
    unsafe impl<T: 'static, F> Sync for Lazy<T, F> {}
    unsafe impl<T: 'static, F> Send for Lazy<T, F> {}

    /// `once_cell::sync::OnceCell` (the subset the subject uses): a loom-modelled lock around a lazily set value that
    /// is re-created in every explored execution.
    pub struct OnceCell<T: 'static> {
        cell: loom::lazy_static::Lazy<loom::sync::Mutex<Option<&'static T>>>,
    }

    fn mk<T: 'static>() -> loom::sync::Mutex<Option<&'static T>> { loom::sync::Mutex::new(None) }

    impl<T: 'static> OnceCell<T> {
        pub const fn new() -> Self { OnceCell { cell: loom::lazy_static::Lazy { init: mk::<T>, _p: PhantomData } } }
        fn slot(&self) -> &'static loom::sync::Mutex<Option<&'static T>> {
            let s: &'static Self = unsafe { &*(self as *const Self) };
            s.cell.get()
        }
        pub fn get(&self) -> Option<&T> { *self.slot().lock().unwrap() }
        pub fn get_or_try_init<E, F: FnOnce() -> Result<T, E>>(&self, f: F) -> Result<&T, E> {
            let mut g = self.slot().lock().unwrap();
            if let Some(v) = *g { return Ok(v); }
            let v: &'static T = Box::leak(Box::new(f()?));
            *g = Some(v);
            Ok(v)
        }
        pub fn get_or_init<F: FnOnce() -> T>(&self, f: F) -> &T {
            match self.get_or_try_init(|| Ok::<T, std::convert::Infallible>(f())) { Ok(v) => v, Err(e) => match e {} }
        }
    }
    unsafe impl<T: 'static> Sync for OnceCell<T> {}
    unsafe impl<T: 'static> Send for OnceCell<T> {}
}
