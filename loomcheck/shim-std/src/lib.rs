//! A crate that the subject sees under the name `std`: the real standard library re-exported, except that the
//! synchronisation and thread modules come from loom. Whatever primitive the subject uses from `std::sync` /
//! `std::thread` is therefore intercepted (the module is overridden, not an identifier).
#![allow(ambiguous_glob_reexports)]

pub use ::std::*;

pub mod sync {
    // everything real std offers that loom does not model stays available ...
    pub use ::std::sync::*;
    // ... and what loom models shadows it (explicit names take precedence over the glob)
    pub use loom::sync::{Arc, Condvar, Mutex, MutexGuard, Notify, RwLock, RwLockReadGuard, RwLockWriteGuard};
    pub mod atomic {
        pub use ::std::sync::atomic::*;
        pub use loom::sync::atomic::{fence, AtomicBool, AtomicI16, AtomicI32, AtomicI64, AtomicI8, AtomicIsize, AtomicPtr, AtomicU16, AtomicU32, AtomicU64, AtomicU8, AtomicUsize};
    }
    pub mod mpsc {
        pub use loom::sync::mpsc::*;
    }
}

pub mod thread {
    pub use loom::thread::*;
}
