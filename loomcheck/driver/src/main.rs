//! C16 under loom: every interleaving (bounded preemptions) of small programs of failing C-API calls and
//! pathrs_errorinfo() calls on 2-3 threads, with scripted random words that force id collisions. Every complete
//! execution's call/return history must be linearizable against a plain map.
//!
//!   driver <quick|thorough> <result.json> [replay-model-index]

use std::cell::RefCell;
use std::collections::{BTreeSet, HashMap};
use std::ffi::CString;
use std::sync::atomic::{AtomicU64, Ordering};
use std::sync::{Arc, Mutex};

use libc::{c_char, c_int, c_uint, dev_t};

#[repr(C)]
struct CError {
    saved_errno: u64,
    description: *const c_char,
}

extern "C" {
    fn pathrs_open_root(path: *const c_char) -> c_int;
    fn pathrs_inroot_resolve(root_fd: c_int, path: *const c_char) -> c_int;
    fn pathrs_inroot_mknod(root_fd: c_int, path: *const c_char, mode: c_uint, dev: dev_t) -> c_int;
    fn pathrs_errorinfo(err_id: c_int) -> *mut CError;
    fn pathrs_errorinfo_free(ptr: *mut CError);
}

// make sure the subject rlib is linked
#[allow(unused_imports)]
use pathrs as _;

#[derive(Clone, Copy, Debug, PartialEq, Eq, Hash)]
enum Op {
    FailInval,
    FailEnoent,
    FailEnosys,
    /// pathrs_errorinfo(last id this thread obtained)
    InfoOwn,
    /// the same id once more
    InfoOwnAgain,
    /// pathrs_errorinfo(an id another thread published), if any has been published yet
    InfoOther,
}

#[derive(Clone, Debug, PartialEq, Eq, Hash)]
enum Res {
    Id(i32),
    Info(i32, Option<u64>),
    Skipped,
}

#[derive(Clone, Debug)]
struct Ev {
    thread: usize,
    op: Op,
    start: u64,
    end: u64,
    res: Res,
}

thread_local! {
    // all loom threads of one model run as coroutines on the model's OS thread: this is per-model state
    static HISTORY: RefCell<Vec<Ev>> = RefCell::new(Vec::new());
    static CLOCK: RefCell<u64> = RefCell::new(0);
    static PUBLISHED: RefCell<Vec<(usize, i32)>> = RefCell::new(Vec::new());
}

fn tick() -> u64 { CLOCK.with(|c| { let mut c = c.borrow_mut(); *c += 1; *c }) }

fn expected_errno(op: Op) -> u64 {
    match op { Op::FailInval => libc::EINVAL as u64, Op::FailEnoent => libc::ENOENT as u64, Op::FailEnosys => libc::ENOSYS as u64, _ => 0 }
}

fn run_thread(t: usize, prog: &[Op], script: Vec<u32>) {
    verif_shim_rand::set_script(script);
    let mut last: Option<i32> = None;
    for &op in prog {
        let start = tick();
        let res = unsafe {
            match op {
                Op::FailInval => { let p = CString::new("x").unwrap(); Res::Id(pathrs_inroot_resolve(-1, p.as_ptr())) }
                Op::FailEnoent => { let p = CString::new(format!("/nonexistent-verif-{}", t)).unwrap(); Res::Id(pathrs_open_root(p.as_ptr())) }
                Op::FailEnosys => { let p = CString::new("sock").unwrap(); Res::Id(pathrs_inroot_mknod(0, p.as_ptr(), libc::S_IFSOCK | 0o644, 0)) }
                Op::InfoOwn | Op::InfoOwnAgain | Op::InfoOther => {
                    let id = match op {
                        Op::InfoOther => PUBLISHED.with(|p| p.borrow().iter().rev().find(|(th, _)| *th != t).map(|(_, id)| *id)),
                        _ => last,
                    };
                    match id {
                        None => Res::Skipped,
                        Some(id) => {
                            let p = pathrs_errorinfo(id);
                            if p.is_null() { Res::Info(id, None) } else { let e = (*p).saved_errno; pathrs_errorinfo_free(p); Res::Info(id, Some(e)) }
                        }
                    }
                }
            }
        };
        let end = tick();
        if let Res::Id(id) = res { last = Some(id); PUBLISHED.with(|p| p.borrow_mut().push((t, id))); }
        HISTORY.with(|h| h.borrow_mut().push(Ev { thread: t, op, start, end, res }));
    }
}

/// Is there a total order of the operations, consistent with real time (a.end < b.start => a before b), under which a
/// plain map explains every return value?
fn linearizable(h: &[Ev]) -> Result<(), String> {
    // immediate checks that need no search
    for e in h {
        if let Res::Id(id) = e.res { if id >= -4095 { return Err(format!("thread {} {:?} returned {} which is not below -4095", e.thread, e.op, id)); } }
    }
    let n = h.len();
    let mut used = vec![false; n];
    let mut live: HashMap<i32, u64> = HashMap::new();
    fn dfs(h: &[Ev], used: &mut Vec<bool>, live: &mut HashMap<i32, u64>, done: usize) -> bool {
        if done == h.len() { return true; }
        for i in 0..h.len() {
            if used[i] { continue; }
            // real-time order: every unused op that ended before i started must come first
            if (0..h.len()).any(|j| !used[j] && j != i && h[j].end < h[i].start) { continue; }
            match &h[i].res {
                Res::Skipped => { used[i] = true; if dfs(h, used, live, done + 1) { return true; } used[i] = false; }
                Res::Id(id) => {
                    if live.contains_key(id) { continue; }
                    live.insert(*id, expected_errno(h[i].op));
                    used[i] = true;
                    if dfs(h, used, live, done + 1) { return true; }
                    used[i] = false;
                    live.remove(id);
                }
                Res::Info(id, got) => {
                    let cur = live.get(id).copied();
                    if cur != *got { continue; }
                    if cur.is_some() { live.remove(id); }
                    used[i] = true;
                    if dfs(h, used, live, done + 1) { return true; }
                    used[i] = false;
                    if let Some(v) = cur { live.insert(*id, v); }
                }
            }
        }
        false
    }
    if dfs(h, &mut used, &mut live, 0) { Ok(()) } else { Err("no sequential order of the calls explains the returned ids / errorinfo results (an id was issued twice while live, an error was lost, delivered twice, or delivered with the wrong errno)".into()) }
}

fn canon(h: &[Ev]) -> String {
    // ids renamed by first appearance so that histories compare across scripts
    let mut names: HashMap<i32, usize> = HashMap::new();
    let mut s = String::new();
    let mut v: Vec<&Ev> = h.iter().collect();
    v.sort_by_key(|e| e.start);
    for e in v {
        let r = match &e.res {
            Res::Id(id) => { let n = names.len(); format!("id{}", names.entry(*id).or_insert(n)) }
            Res::Info(id, g) => { let n = names.len(); format!("info(id{})={:?}", names.entry(*id).or_insert(n), g) }
            Res::Skipped => "skip".into(),
        };
        s += &format!("t{}:{:?}[{}-{}]->{}; ", e.thread, e.op, e.start, e.end, r);
    }
    s
}

fn programs(thorough: bool) -> Vec<Vec<Op>> {
    use Op::*;
    let mut v = vec![
        vec![FailInval], vec![FailInval, InfoOwn], vec![FailEnoent, InfoOwn], vec![FailInval, FailEnosys], vec![FailInval, InfoOwn, InfoOwnAgain],
        vec![InfoOther], vec![FailInval, InfoOther], vec![InfoOther, FailInval], vec![FailEnosys, InfoOwn, FailInval],
    ];
    if thorough { v.extend(vec![vec![FailInval, FailInval, InfoOwn], vec![InfoOther, InfoOther], vec![FailEnoent, InfoOther, InfoOwn], vec![FailInval, InfoOwn, FailInval]]); }
    v
}

/// scripts per thread index; equal words => equal ids
fn scripts() -> Vec<(&'static str, Vec<Vec<u32>>)> {
    vec![
        ("distinct", vec![vec![0x1000_0000, 0x2000_0000, 0x2800_0000], vec![0x3000_0000, 0x4000_0000, 0x4800_0000], vec![0x5000_0000, 0x6000_0000, 0x6800_0000]]),
        ("collide-while-live", vec![vec![0x7000_0000, 0x7100_0000, 0x7000_0000], vec![0x7000_0000, 0x7200_0000, 0x7100_0000], vec![0x7000_0000, 0x7100_0000, 0x7300_0000]]),
        ("reuse-after-consume", vec![vec![0x0800_0000, 0x0800_0000, 0x0800_0000], vec![0x0900_0000, 0x0800_0000, 0x0900_0000], vec![0x0800_0000, 0x0900_0000, 0x0800_0000]]),
        ("range-ends", vec![vec![0, u32::MAX, 0], vec![u32::MAX, 0, 1], vec![0, 0, u32::MAX]]),
    ]
}

struct ModelSpec { progs: Vec<Vec<Op>>, script_name: &'static str, scripts: Vec<Vec<u32>>, bound: usize }

fn models(tier: &str) -> Vec<ModelSpec> {
    let th = tier == "thorough";
    let ps = programs(th);
    let mut v = Vec::new();
    for (sn, sc) in scripts() {
        for a in &ps { for b in &ps {
            v.push(ModelSpec { progs: vec![a.clone(), b.clone()], script_name: sn, scripts: sc.clone(), bound: if th { 3 } else { 2 } });
        } }
        if th {
            let small: Vec<&Vec<Op>> = ps.iter().filter(|p| p.len() <= 2).collect();
            for a in &small { for b in &small { for c in &small {
                v.push(ModelSpec { progs: vec![(*a).clone(), (*b).clone(), (*c).clone()], script_name: sn, scripts: sc.clone(), bound: 2 });
            } } }
        }
    }
    v
}

struct Outcome { executions: u64, histories: BTreeSet<String>, violation: Option<(String, String)>, crashed: Option<String> }

fn run_model(m: &ModelSpec) -> Outcome {
    let execs = Arc::new(AtomicU64::new(0));
    let hists: Arc<Mutex<BTreeSet<String>>> = Arc::new(Mutex::new(BTreeSet::new()));
    let vio: Arc<Mutex<Option<(String, String)>>> = Arc::new(Mutex::new(None));
    let (e2, h2, v2) = (execs.clone(), hists.clone(), vio.clone());
    let progs = m.progs.clone();
    let scr = m.scripts.clone();
    let mut b = loom::model::Builder::new();
    b.preemption_bound = Some(m.bound);
    b.max_branches = 100_000;
    let r = std::panic::catch_unwind(std::panic::AssertUnwindSafe(|| {
        b.check(move || {
            e2.fetch_add(1, Ordering::Relaxed);
            HISTORY.with(|h| h.borrow_mut().clear());
            CLOCK.with(|c| *c.borrow_mut() = 0);
            PUBLISHED.with(|p| p.borrow_mut().clear());
            let mut hs = Vec::new();
            for (t, p) in progs.iter().enumerate().skip(1) {
                let (p, s) = (p.clone(), scr[t].clone());
                hs.push(loom::thread::spawn(move || run_thread(t, &p, s)));
            }
            run_thread(0, &progs[0], scr[0].clone());
            for h in hs { h.join().unwrap(); }
            let hist: Vec<Ev> = HISTORY.with(|h| h.borrow().clone());
            let c = canon(&hist);
            if let Err(why) = linearizable(&hist) { let mut g = v2.lock().unwrap(); if g.is_none() { *g = Some((c.clone(), why)); } }
            let mut g = h2.lock().unwrap();
            if g.len() < 2000 { g.insert(c); }
        });
    }));
    let crashed = match r { Ok(()) => None, Err(p) => Some(if let Some(s) = p.downcast_ref::<String>() { s.clone() } else if let Some(s) = p.downcast_ref::<&str>() { s.to_string() } else { "loom panicked".into() }) };
    let histories = hists.lock().unwrap().clone();
    let violation = vio.lock().unwrap().clone();
    Outcome { executions: execs.load(Ordering::Relaxed), histories, violation, crashed }
}

fn main() {
    let args: Vec<String> = std::env::args().collect();
    let tier = args.get(1).cloned().unwrap_or_else(|| "quick".into());
    let outp = args.get(2).cloned().unwrap_or_else(|| "/dev/stdout".into());
    let only: Option<usize> = args.get(3).and_then(|s| s.parse().ok());
    std::panic::set_hook(Box::new(|_| {}));
    let ms = Arc::new(models(&tier));
    let next = Arc::new(Mutex::new(0usize));
    let total = Arc::new(Mutex::new((0u64, BTreeSet::<String>::new(), Vec::<serde_json::Value>::new(), Vec::<String>::new(), 0u64, 0u64)));
    let jobs = std::env::var("VMC_JOBS").ok().and_then(|s| s.parse().ok()).unwrap_or(16usize);
    let mut ths = Vec::new();
    for _ in 0..jobs {
        let (ms, next, total) = (ms.clone(), next.clone(), total.clone());
        ths.push(std::thread::Builder::new().stack_size(64 << 20).spawn(move || loop {
            let i = { let mut g = next.lock().unwrap(); let i = *g; *g += 1; i };
            if i >= ms.len() { break; }
            if let Some(o) = only { if o != i { continue; } }
            let m = &ms[i];
            let out = run_model(m);
            let mut g = total.lock().unwrap();
            g.0 += out.executions;
            g.4 += 1;
            g.5 = g.5.max(out.executions);
            for h in out.histories { if g.1.len() < 5000 { g.1.insert(h); } }
            if let Some((hist, why)) = out.violation {
                g.2.push(serde_json::json!({"model": i, "programs": format!("{:?}", m.progs), "script": m.script_name, "preemption_bound": m.bound, "history": hist, "why": why}));
            }
            if let Some(c) = out.crashed { g.3.push(format!("model {} ({:?}, {}): {}", i, m.progs, m.script_name, c.chars().take(300).collect::<String>())); }
        }).unwrap());
    }
    for t in ths { let _ = t.join(); }
    let g = total.lock().unwrap();
    let sample: Vec<&String> = g.1.iter().take(3).collect();
    let doc = serde_json::json!({
        "models": g.4, "executions": g.0, "max_executions_per_model": g.5, "distinct_histories": g.1.len(), "violations": g.2, "crashes": g.3,
        "programs": programs(tier == "thorough").len(), "scripts": scripts().len(), "sample_histories": sample,
    });
    std::fs::write(&outp, serde_json::to_string(&doc).unwrap()).expect("write result");
}
