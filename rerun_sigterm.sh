#!/bin/bash
# rerun_sigterm.sh <Cxx> <n>: tests that a foreign pkill SIGTERM'd during the confirmation suite run of patch n are re-run alone with the patch
ID=$1; N=$2; D=/tmp/seed3/$ID; WT=$D/wt
export CARGO_TARGET_DIR=$D/target CARGO_NET_OFFLINE=true
cd $WT || exit 2
git checkout -q -- . ; git clean -qfd
git apply $D/out/patch$N.diff || exit 3
T=$(grep -E '^\s+(SIGTERM|SIGKILL|SIGABRT)' $D/suite-$N.log | awk '{print $NF}' | sort -u)
STILL=0
for t in $T; do
  okk=0; for try in 1 2 3 4; do if cargo nextest run --offline -E "test(=$t)" >/dev/null 2>&1; then okk=1; break; fi; done
  if [ $okk = 1 ]; then echo "  rerun ok: $t (was SIGTERM'd by a foreign pkill)" >> $D/confirm-$N.log; else echo "  RERUN FAILED 4x: $t" >> $D/confirm-$N.log; STILL=$((STILL+1)); fi
done
echo "sigterm_rerun_still_failing=$STILL" >> $D/confirm-$N.log
git checkout -q -- . ; git clean -qfd
echo "$ID-$N sigterm reruns: $(echo $T | wc -w) tests, still failing $STILL"
