#!/bin/bash
# rerun_failed.sh <Cxx> <n>: tests that still failed when re-run alone during a heavily loaded confirmation are tried again (up to 6x) with the patch
ID=$1; N=$2; D=/tmp/seed3/$ID; WT=$D/wt
export CARGO_TARGET_DIR=$D/target CARGO_NET_OFFLINE=true
exec 9>$D/lock; flock 9
cd $WT || exit 2
git checkout -q -- . ; git clean -qfd
git apply $D/out/patch$N.diff || exit 3
T=$(grep -E 'RERUN FAILED 4x' $D/confirm-$N.log | awk '{print $NF}' | sort -u)
STILL=0
for t in $T; do
  okk=0; for try in 1 2 3 4 5 6; do if cargo nextest run --offline -E "test(=$t)" >/dev/null 2>&1; then okk=$try; break; fi; done
  if [ $okk != 0 ]; then echo "  rerun ok: $t (later, quieter machine, attempt $okk)" >> $D/confirm-$N.log; else echo "  STILL FAILING LATER: $t" >> $D/confirm-$N.log; STILL=$((STILL+1)); fi
done
# rewrite the verdict line the saver reads
sed -i "s/^still_failing_alone=.*/still_failing_alone=$STILL/" $D/confirm-$N.log
git checkout -q -- . ; git clean -qfd
echo "$ID-$N later reruns: $(echo $T | wc -w) tests, still failing $STILL"
