#!/usr/bin/env python3
"""Round 2: copies confirmed seeded changes from /tmp/seed2/<prop>/out into /verif/seeded/<id>/ with meta.json.
Same rule as save_seeds.py: a seed is saved only when its confirmation log (confirm_seed.sh with SEEDBASE=/tmp/seed2, run by me in
the agent's scratch worktree) shows: demo passes on the clean tree, fails with the patch, pinned suite passes with the patch
(failures re-run alone)."""
import json, os, re, shutil

F = "caught by the first quick run"
SEEDS = {
 # id: (property, n in the agent's directory, needs-to-manifest, detected by, note)
 "C01-3": ("C01", 1, "emulated backend; a tree that CONTAINS a procfs mount, and a walk through a magic-link (p/self/cwd): the RESOLVE_NO_MAGICLINKS emulation asks whether the ROOT's filesystem can hold magic-links instead of the link's", ["C01", "C04"], "missed first; a tree with procfs mounted inside the root was added to the lookup engine (which also surfaced a known finding: pseudo magic-links end in ENOENT)"),
 "C01-4": ("C01", 2, "emulated backend; one-shot open with O_PATH|O_DIRECTORY (any O_PATH request returns the lookup handle without re-opening)", ["C01", "C04"], F),
 "C01-5": ("C01", 3, "Root::readlink on a path with trailing slashes (ignored instead of ENOTDIR)", ["C01"], F),
 "C02-3": ("C02", 1, "emulated backend; requested path WITHOUT a literal '..' that walks through a symlink whose body has '..', while the directory holding the link is moved out: both containment checks are skipped when the user path has no '..'", ["C02"], F),
 "C02-4": ("C02", 2, "emulated backend; caller thread with its own descriptor table (unshare(CLONE_FILES)) while the thread-group leader holds descriptors of the expected directories on the same numbers, plus a racing move-out before '..': as_unsafe_path reads /proc/self/fd instead of /proc/thread-self/fd", ["C02"], "missed first; callers with a private descriptor table and look-alike descriptors in the leader were added (worker runs the operation in an unshared thread, supervisor follows the clone)"),
 "C02-5": ("C02", 3, "openat2 backend with ResolverFlags::NO_SYMLINKS and a path with '..' above the root or an absolute path: '=' instead of '|=' drops RESOLVE_IN_ROOT|RESOLVE_NO_MAGICLINKS", ["C02", "C01", "C03", "C04", "C05"], "caught by C01/C03/C04/C05 at once, by C02 itself only after the 'every delegated openat2 walk is scoped' rule and an escaping NO_SYMLINKS path were added"),
 "C03-4": ("C03", 1, "remove_all with a path of at least two components ending in '..' whose parent resolves to the root ('./..', 'a/../..'): the '.'/'..' refusal compares the whole string", ["C03", "C13"], F),
 "C03-5": ("C03", 2, "remove_all of a non-empty directory that is swapped for a symlink between the failed rmdir and the scan open (raw rustix openat without O_NOFOLLOW)", ["C03", "C13", "C05"], F),
 "C03-6": ("C03", 3, "create_file with O_PATH in the flags and a final component that is a symlink to something outside (O_NOFOLLOW only forced for non-O_PATH opens)", ["C03", "C14", "C05"], "missed first; create_file(O_PATH) was added to the alphabets and the EverInside closure of the monitor corrected (an O_CREAT open that followed a link does not create an 'inside' object) - which then also exposed genuine defect 18"),
 "C04-4": ("C04", 1, "emulated backend; open_subpath with O_PATH|O_DIRECTORY", ["C04", "C01"], F),
 "C04-5": ("C04", 2, "emulated backend; a lookup that follows exactly 40 symlinks (limit lowered to 40 with a '>=' comparison)", ["C04", "C01"], F),
 "C04-6": ("C04", 3, "emulated backend; mkdir_all through a symlink whose body is '/' or '.' followed by more components (stale symlink-stack entry)", ["C04", "C12"], F),
 "C05-3": ("C05", 1, "remove_all of a non-empty directory: scan open through raw rustix without O_NOFOLLOW|O_NOCTTY", ["C05", "C03", "C13"], F),
 "C05-4": ("C05", 2, "C API called with AT_FDCWD (-100) as root descriptor", ["C05", "C17"], "caught by C17 at once; by C05 after C entry points with AT_FDCWD were added to its scenarios"),
 "C05-5": ("C05", 3, "openat2 backend; open_subpath / ProcfsHandle::open with O_RDONLY (O_NOCTTY only added 'when opened for I/O', and O_RDONLY is 0)", ["C05"], F),
 "C06-3": ("C06", 1, "emulated procfs resolver, handle that sees over-mounts, a relative symlink bind-mounted over self / thread-self: per-step mount check skipped for symlink components", ["C06"], F),
 "C06-4": ("C06", 2, "fsopen unavailable but open_tree works: OPEN_TREE_CLONE no longer implied, the handle is the shared host /proc; a mount placed after handle creation", ["C06"], F),
 "C06-5": ("C06", 3, "base thread-self, handle that sees over-mounts, dangling symlink on thread-self plus tmpfs on <pid>/task: candidate probe follows symlinks and falls back to 'self'", ["C06"], F),
 "C07-3": ("C07", 1, "emulated procfs resolver; '..' as the last component with O_PATH (fast path in front of the '..' refusal)", ["C07"], F),
 "C07-4": ("C07", 2, "O_EXCL without O_CREAT is no longer refused", ["C07", "C09"], F),
 "C07-5": ("C07", 3, "open_follow (or C pathrs_proc_open without O_NOFOLLOW) with a sub-path ending in '.' after a magic-link or non-directory ('cwd/.', 'exe/./'): components() drops the trailing '.'", ["C07"], "missed first: the check's own oracle did not treat a final '.' as making the link in front of it a component; corrected"),
 "C08-3": ("C08", 1, "caller that can clone the host /proc (open_tree) but cannot mount a new procfs, on a subset=pid / hidepid /proc: recursion guard compares mount ids, every clone has a new one", ["C08"], "missed first; kernel feature sets (fsopen missing / no new mount API) were added to C08's configurations"),
 "C08-4": ("C08", 2, "masked handle, missing path, and all three constructors of the temporary unmasked handle failing at that moment: the constructor's error replaces ENOENT", ["C08"], "missed first; persistent descriptor exhaustion starting after the kernel's ENOENT was added to the deviation menu, with the rule 'if only the retry's handle creation fails the answer is still ENOENT'"),
 "C08-5": ("C08", 3, "unprivileged caller on a hidepid=/subset=pid host, open_follow with base ProcRoot: delegation to an 'unmasked' handle that is masked too recurses", ["C08"], F),
 "C09-3": ("C09", 1, "caller thread with its own descriptor table: reopen through /proc/self/fd", ["C09"], F),
 "C09-4": ("C09", 2, "Rust Handle::reopen with O_DIRECTORY in the flags (O_TMPFILE contains it; symlink handles): fast path openat(fd, '.')", ["C09"], F),
 "C09-5": ("C09", 3, "privileged caller on a kernel with fsopen but without hidepid=ptraceable/subset=pid (fsconfig SET_STRING fails) and an over-mount on the host /proc/thread-self/fd: falls back to a recursive clone of the host /proc", ["C09"], "missed first; host /proc states (tmpfs over /proc, look-alike links over <pid>/fd) and an 'old fsconfig' kernel were added to C09 - which also exposed genuine defect 20"),
 "C10-3": ("C10", 1, "openat2 backend, an operation going through openat2_retry, 16 EAGAINs in a row: OsError(EAGAIN) instead of a safety violation", ["C10"], F),
 "C10-4": ("C10", 2, "remove_all below a directory with a child that persistently cannot be removed (descriptor limit reached at depth): the child's error is ignored and the directory rescanned forever", ["C10"], "missed first (the EXHAUST deviation makes the rescan fail too); real RLIMIT_NOFILE values that bite in the middle of the operation were added"),
 "C10-5": ("C10", 3, "open_follow on a magic-link through a handle on the host /proc, a mount placed inside open_follow's documented race window (when the mount-id comparison is about to be made) AND one failing statx at a mount-id probe: unknown mount id passes as 'same mount'", ["C10"], "missed first (needs an attacker action and a fault in one execution); scenarios with a SCRIPTED over-mount at the comparison point were added to C10's fault enumeration, with the rule that the over-mounted object is never returned"),
 "C11-3": ("C11", 1, "Rust-API try_clone(): dup without FD_CLOEXEC", ["C11", "C05"], F),
 "C11-4": ("C11", 2, "any failing call whose error comes from a syscall wrapper, inspected while the Err value is alive / before pathrs_errorinfo(): FrozenFd keeps a dup of the directory descriptor", ["C11"], "missed first; the worker now keeps error values alive (and C error ids unfetched) until the descriptor table has been inspected"),
 "C11-5": ("C11", 3, "root, first lookup of the process that hits ENOENT in the masked handle: the temporary unmasked handle is cached in a static and never closed", ["C11"], F),
 "C12-3": ("C12", 1, "requested mode without owner write/search (0555, 0070, 0) and at least two missing components: intermediate directories get mode|0300", ["C12"], "quick tier missed it (thorough had mode 0); mode 0555 added to the quick alphabet"),
 "C12-4": ("C12", 2, "emulated backend; a missing component that is not valid UTF-8: lossy conversion creates a different name", ["C12", "C04"], "missed first; path transport made byte-exact (worker, snapshots, twins) and non-UTF-8 spellings added"),
 "C12-5": ("C12", 3, "concurrent mkdir_all callers with DIFFERENT uids racing for the first missing component inside a 01777 directory: the loser refuses to adopt the winner's directory", ["C12"], "missed first; caller groups with different uids in a sticky directory were added"),
 "C13-3": ("C13", 1, "remove_all: scan open follows a symlink swapped in by a third party (or reached by an unprivileged caller in a sticky directory)", ["C13", "C03", "C05"], F),
 "C13-4": ("C13", 2, "two concurrent remove_all of one path, top-level directory vanishing between the failed rmdir and the scan open: ENOENT no longer tolerated", ["C13"], F),
 "C13-5": ("C13", 3, "remove_all with a final component '.' or '..' preceded by another component ('a/..', '/..'): refusal hoisted and applied to the whole path", ["C13", "C03"], "first run ended in a machinery error (the change deletes the root directory itself and the engine could not rebuild the tree); the engine now reports the destroyed root as a violation"),
 "C14-3": ("C14", 1, "kernel without renameat2 (ENOSYS), flags exactly RENAME_NOREPLACE, destination a dangling symlink: emulation with faccessat + renameat replaces it", ["C14"], "missed first; a second pass of the rename operations on a kernel without renameat2 was added (reference: the renameat2 effect, or ENOSYS with the tree untouched)"),
 "C14-4": ("C14", 2, "Root::create with a path spelled with trailing slashes: stripped instead of refused", ["C14"], F),
 "C14-5": ("C14", 3, "C API mknod/mkdir with set-uid, set-gid or sticky bits in the mode: only the rwx bits are kept", ["C14"], "missed first; set-id and sticky modes added to the create/mknod/mkdir alphabets"),
 "C15-3": ("C15", 1, "sysctl=1; process changes its effective uid after its first checked symlink (uid cached in a Lazy)", ["C15"], F),
 "C15-4": ("C15", 2, "sysctl=1; directory with exactly one of sticky / world-writable: intersects instead of contains", ["C15"], F),
 "C15-5": ("C15", 3, "sysctl=1; the first sysctl read of the process fails: treated as 0 and cached", ["C15"], "caught through the 'sysctl unreadable' configuration (callers without mount privilege on a subset=pid /proc) added while the seeding agents were still running"),
 "C16-3": ("C16", 1, "two threads calling pathrs_errorinfo() on the same live id: RwLock read-then-write, both get the error", ["C16"], F),
 "C16-4": ("C16", 2, "slab rewrite: a second fetch of a consumed id frees the slot twice; the next two outstanding errors share an id", ["C16"], F),
 "C16-5": ("C16", 3, "a library syscall failing with exactly ENOSYS (seccomp / old kernel): reclassified as NotSupported, saved_errno becomes 0", ["C16"], "missed first; ENOSYS answers for symlinkat/mknodat/linkat were added to the errno table"),
 "C17-3": ("C17", 1, "readlink into a buffer larger than the link: a NUL terminator is copied too (canary after the body)", ["C17"], F),
 "C17-4": ("C17", 2, "descriptor exactly -100 (AT_FDCWD) passes the negative-descriptor check", ["C17", "C05"], F),
 "C17-5": ("C17", 3, "unknown procfs base whose low 32 bits equal a PATHRS_PROC_* constant", ["C17"], F),
}

def confirm_info(prop, n):
    p = f"/tmp/seed2/{prop}/confirm-{n}.log"
    if not os.path.exists(p): return None
    t = open(p, errors="replace").read()
    if "CONFIRM_DONE" not in t: return None
    g = lambda pat: (re.search(pat, t) or [None, None])[1]
    return {"demo_clean_rc": g(r"demo_clean_rc=(\d+)"), "demo_patched_rc": g(r"demo_patched_rc=(\d+)"), "suite_summary": (g(r"Summary \[[^\]]*\] (.*)") or "").strip(),
            "failed_in_full_run": g(r"failed_in_full_run: (\d+)"), "still_failing_when_rerun_alone": g(r"still_failing_alone=(\d+)"),
            "reruns": re.findall(r"(rerun ok|RERUN FAILED[^:]*): (\S+)", t)}

saved, pending = [], []
for sid, (prop, n, needs, det, note) in SEEDS.items():
    src = f"/tmp/seed2/{prop}/out"
    ci = confirm_info(prop, n)
    if not ci or not os.path.exists(f"{src}/patch{n}.diff"):
        pending.append(sid); continue
    ok = ci["demo_clean_rc"] == "0" and ci["demo_patched_rc"] not in (None, "0") and ci["still_failing_when_rerun_alone"] == "0"
    if not ok:
        pending.append(f"{sid}(not confirmed: {ci['demo_clean_rc']}/{ci['demo_patched_rc']}/still={ci['still_failing_when_rerun_alone']})"); continue
    d = f"/verif/seeded/{sid}"
    os.makedirs(d, exist_ok=True)
    if not os.path.exists(f"{d}/patch.diff"): shutil.copy(f"{src}/patch{n}.diff", f"{d}/patch.diff")
    shutil.copy(f"{src}/patch{n}.diff", f"{d}/patch-original.diff")
    shutil.copy(f"{src}/demo{n}.rs", f"{d}/demo.rs")
    meta = {"seed": sid, "round": 2, "breaks_property": prop, "needs_to_manifest": needs, "detected_by_checks": det, "note": note,
            "patch_base": "repaired tree at 2bf2a6f (patch-original.diff); patch.diff is the version that applies to the current /repo HEAD",
            "origin": "independent sub-agent given only the property text and a scratch worktree",
            "confirmed_by_me": {"where": f"scratch worktree /tmp/seed2/{prop}/wt (removed afterwards)", "how": "confirm_seed.sh: demo without patch, apply, build (+capi), demo with patch, pinned suite with patch, failed tests re-run alone up to 4x", **ci},
            "demo_usage": "copy demo.rs to examples/seed_demo.rs and run `cargo run --offline [--features capi] --example seed_demo` as root (exit 0 = property holds)"}
    json.dump(meta, open(f"{d}/meta.json", "w"), indent=1)
    saved.append(sid)
print("saved:", len(saved), saved)
print("pending:", pending)
