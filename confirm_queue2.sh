#!/bin/bash
# confirm_queue2.sh <Cxx> : confirm every candidate of that round-2 agent, one after the other
ID=$1
for n in 1 2 3; do
  [ -f /tmp/seed2/$ID/out/patch$n.diff ] || continue
  [ -f /tmp/seed2/$ID/confirm-$n.log ] && grep -q CONFIRM_DONE /tmp/seed2/$ID/confirm-$n.log && continue
  SEEDBASE=/tmp/seed2 /verif/confirm_seed.sh $ID $n
done
echo "QUEUE_DONE $ID"
