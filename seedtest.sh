#!/bin/bash
# seedtest.sh <patch> <check-id> [more ids...]  : apply a seeded change to /repo, run checks, always revert
P="$1"; shift
cd /repo || exit 2
git diff --quiet || { echo "/repo dirty"; exit 2; }
git apply --check "$P" 2>/dev/null || { echo "PATCH DOES NOT APPLY CLEANLY: trying 3way"; git apply --3way "$P" || { git reset -q --hard HEAD; echo "CONFLICT - needs manual port"; exit 3; }; git reset -q; }
git apply "$P" 2>/dev/null
git diff --stat | tail -1
for id in "$@"; do
  out=$(cd /verif && ./check "$id" --tier "${TIER:-quick}" 2>&1); rc=$?
  echo "== $id rc=$rc: $(echo "$out" | grep -c '^VIOLATION') VIOLATION lines"
  echo "$out" | grep -E 'violation \[' | cut -c1-260 | head -${SHOW:-4}
  echo "$out" | grep -E 'MACHINERY' | cut -c1-300 | head -3
done
cd /repo && git checkout -- . && git status --short | head -3
