#!/bin/bash
# reconfirm2.sh <Cxx> <n> : the tests that kept failing alone under machine load are run again (patch applied in the agent's
# worktree) once the machine is quiet; the confirmation log is amended.
ID=$1; N=$2; D=/tmp/seed2/$ID; WT=$D/wt; LOG=$D/confirm-$N.log
export CARGO_TARGET_DIR=$D/target CARGO_NET_OFFLINE=true
cd "$WT" || exit 2
git checkout -q -- . ; git clean -qfd
git apply $D/out/patch$N.diff || exit 3
STILL=0
for t in $(grep "RERUN FAILED" $LOG | awk '{print $NF}'); do
  okk=0; for try in 1 2 3 4 5 6; do if cargo nextest run --offline -E "test(=$t)" >/dev/null 2>&1; then okk=1; break; fi; done
  if [ $okk = 1 ]; then echo "  rerun ok: $t (quiet machine)" >> $LOG; sed -i "s#  RERUN FAILED 4x: $t\$#  (failed 4x alone under load) $t#" $LOG; else STILL=$((STILL+1)); echo "  STILL FAILING on a quiet machine: $t" >> $LOG; fi
done
sed -i "s/^still_failing_alone=.*/still_failing_alone=$STILL/" $LOG
git checkout -q -- . ; git clean -qfd
echo "$ID-$N still=$STILL"
