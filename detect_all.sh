#!/bin/bash
# detect_all.sh [id...] : for every kept seed, apply it to /repo, run the checks listed in meta.json (quick tier), record the verdicts
# in seeded/<id>/detection.log, and revert /repo. Nothing is ever committed in /repo.
cd /verif
ids="$@"; [ -z "$ids" ] && ids=$(ls seeded)
for id in $ids; do
  d=/verif/seeded/$id; [ -f $d/meta.json ] || continue
  checks=$(python3 -c "import json; m=json.load(open('$d/meta.json')); print(' '.join(m['detected_by_checks'] or [m['breaks_property']]))")
  ( cd /repo && git diff --quiet ) || { echo "/repo dirty"; exit 2; }
  ( cd /repo && { git apply $d/patch.diff 2>/dev/null || { git apply --3way $d/patch.diff >/dev/null 2>&1 && git reset -q && ! grep -rq '<<<<<<<' src; }; } ) || { echo "$id: patch does not apply"; ( cd /repo && git reset -q --hard HEAD ); continue; }
  : > $d/detection.log
  for c in $checks; do
    out=$(./check $c --tier quick 2>&1); rc=$?; out=$(echo "$out" | tr -d '\000')
    n=$(echo "$out" | grep -c '^VIOLATION')
    echo "check $c on /repo + $id: exit $rc, $n VIOLATION lines" | tee -a $d/detection.log
    echo "$out" | grep -a -E 'violation \[' | cut -c1-400 | head -3 >> $d/detection.log
    echo "$out" | grep -a -E "^$c |MACHINERY" | cut -c1-300 >> $d/detection.log
  done
  ( cd /repo && git checkout -- . )
done
