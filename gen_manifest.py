#!/usr/bin/env python3
"""Regenerates MANIFEST.json from the table below (kept as a script so that the manifest stays consistent)."""
import json
BASE = "cd /repo && cargo nextest run --workspace --no-fail-fast --tool-config-file pb:/w/lib/nextest.toml --profile pb --test-threads 8 --offline"
checks = {}
def chk(pid, engine, cat, text, note, technique, ref, thorough=True):
    checks[pid] = {
        "property_id": pid,
        "quick_cmd": f"./check {pid} --tier quick",
        **({"thorough_cmd": f"./check {pid} --tier thorough"} if thorough else {}),
        "evidence_file": f"/verif/evidence/{pid}.json",
        "replay_cmd_template": f"./check {pid} --replay {{path}}",
        "engine": engine,
        "level_claimed": {"category": cat, "text": text, "design_ref": ref},
        "level_note": note,
        "technique": technique,
    }

chk("C01", "treemc", "model_checking",
    "Bounded-exhaustive enumeration of every tree x path x lookup operation x resolver flag x backend in a stated small scope; a reference model of in-root resolution is run on every case, validated case-by-case against the running kernel's openat2(RESOLVE_IN_ROOT) and then both libpathrs backends are compared with it; containment is checked independently against a snapshot of the tree.",
    "Trusts the running kernel's openat2 as the definition of in-root resolution; kernel-without-openat2 simulated by seccomp (ENOSYS, and EPERM for the old-seccomp-profile feature set); small-scope hypothesis (names a,b, depth 2, listed link bodies, paths <=2/3 components, plus the listed special trees, root placements and non-root callers).",
    "explicit enumeration of a finite input space + reference model with trace conformance against kernel and implementation", "DESIGN.md 4/C01")

SYS_NOTE = "Trusts ptrace syscall stops as the complete interface between libpathrs and the world (no vDSO-only or io_uring paths are used by the library); schedules/faults are explored at syscall boundaries only; races inside one syscall are the kernel's. Kernel-without-X simulated by ENOSYS."
chk("C02", "sysmc", "model_checking",
    "Stateless model checking of the real implementation at its syscall boundary: for every lookup scenario on the race tree, every attacker mutation of a stated alphabet is applied before every tree-relevant syscall (all schedules up to the deviation bound: 1 quick, 2 thorough; several mutations may fall between the same two syscalls; the alphabet includes replacing entries inside a directory that was moved out of the root by never-inside look-alikes, explored at bound 2 in the quick tier with the move/plant alphabet; plus operations performed after work on another root with the same descriptor number), and every execution is judged by a containment oracle the supervisor computes itself (objects ever reachable from the root over all tree states of the run; link bodies read only from such objects). Failing schedules are replayed once before being reported.",
    SYS_NOTE + " The attacker cannot rename the root directory itself (the statement is about entries of the tree; the library documents that its root-moved detection is defeatable). POR: mutations only before namespace-touching syscalls. DESIGN.md 22.",
    "deviation-bounded exhaustive schedule enumeration under a ptrace-controlled scheduler (stateless model checking of the implementation)", "DESIGN.md 4/C02")
chk("C03", "sysmc", "model_checking",
    "Same explorer as C02 over every mutating operation (create x types, create_file, mkdir_all, remove_*, rename, links): all attacker schedules up to the bound, plus a bounded-exhaustive sweep of argument spellings ('.', '..', absolute, through links pointing outside). Oracles: every mutating/opening syscall's directory descriptor must be an ever-inside inode, and whole-filesystem snapshots of the jail show that no never-inside object was removed/modified and nothing was created in a never-inside directory.",
    SYS_NOTE, "deviation-bounded exhaustive schedule enumeration + exhaustive input sweep, syscall-level and snapshot oracles", "DESIGN.md 4/C03")
chk("C05", "sysmc", "exploration",
    "Every system call of every execution of a covering family (all operations, both backends, warm and cold lazies, with and without the new mount API, an old seccomp profile answering EPERM, Rust and C entry points, success and error paths - including executions disturbed by one injected errno at every syscall boundary and by one attacker mutation at every tree-relevant boundary) is decoded under ptrace and checked against an allow-list automaton (single component + dirfd + no-follow; openat2 only with the confining resolve flags; follow only for a trailing procfs link in reopen/open_follow; O_CLOEXEC everywhere; O_NOCTTY unless O_PATH/O_DIRECTORY).",
    SYS_NOTE + " The covering family is finite and listed in the evidence; a call site never exercised by it is not judged.",
    "exhaustive per-transition invariant checking over enumerated executions (syscall-trace automaton)", "DESIGN.md 4/C05")
chk("C10", "sysmc", "fault_enumeration",
    "For every scenario and every syscall index of its trace, every errno of the class catalogue is injected once (ptrace: skip the call, return -errno), plus EAGAIN x{15,16,17} runs and descriptor exhaustion from each index on; oracle: no panic/abort/hang, error or a success whose post-condition holds, containment monitors silent, nothing outside the root changed, EAGAIN semantics (retried, 16 => safety violation).",
    SYS_NOTE + " Quick tier injects at path-taking and descriptor-creating syscalls only (3 errnos per class); thorough at every syscall with the full catalogue.",
    "exhaustive single-fault (and stated fault-sequence) enumeration over syscall traces", "DESIGN.md 4/C10")
chk("C11", "sysmc", "fault_enumeration",
    "The descriptor table (number -> object, close-on-exec) is listed before and after every call of the covering family (Rust and C API, both backends, warm/cold, three mount-API feature sets), under every single injected fault and every single attacker mutation of a scenario subset; it may differ only by the returned close-on-exec descriptor (cold runs: plus the process-lifetime procfs handle).",
    SYS_NOTE, "exhaustive single-fault / single-mutation enumeration with a descriptor-table invariant", "DESIGN.md 4/C11")

TM_NOTE = "Trusts the running kernel (6.18, tmpfs) for the oracle's raw *at calls and openat2(RESOLVE_IN_ROOT); kernel-without-openat2 simulated by seccomp ENOSYS in the worker; small-scope hypothesis."
chk("C04", "treemc", "exploration",
    "Pure differential enumeration: every enumerated (tree, operation, arguments) case is executed on a kernel-backend worker and on an emulated-backend worker (freshly rebuilt twin trees for mutating operations) and the outcomes are compared: success/failure, ErrorKind, errno, identity of the returned object, access mode / FD_CLOEXEC / status flags (O_NOFOLLOW excluded), canonical resulting filesystem including everything outside the root. Lookups also run through a Root wrapping a caller-supplied O_RDONLY descriptor.",
    TM_NOTE + " No model and no kernel oracle: only agreement of the two implementations is decided.",
    "exhaustive differential enumeration of a bounded input space (two implementations)", "DESIGN.md 4/C04")
chk("C12", "treemc+sysmc", "model_checking",
    "Sequential half: bounded-exhaustive trees x path spellings x modes; each case on a rebuilt tree on both backends and on an oracle twin where the harness computes the longest in-root-resolvable prefix with openat2 and creates the remaining plain components itself (mkdir -p); errno, resulting filesystem (modes incl. umask/setgid inheritance) and handle identity must agree. Concurrent half: 2-3 callers as ptrace-stepped processes on one root, every interleaving at tree-relevant syscall granularity up to the preemption bound; all succeed, agree on the directories, create only directories on the requested chains.",
    TM_NOTE + " Concurrent callers are processes (libpathrs calls share no mutable memory).",
    "explicit-state enumeration with a reference twin + preemption-bounded exhaustive interleaving exploration under a controlled scheduler", "DESIGN.md 4/C12")
chk("C13", "treemc+sysmc", "model_checking",
    "Sequential half: bounded-exhaustive trees (links to siblings/parents/outside, loops, fifos, hard links) x path spellings incl. '.', '..', trailing slashes; oracle twin = rm -r of exactly the named entry without following links; errno and canonical resulting filesystem (inside and outside the root) must agree, '.'/'..' must be refused without effect. Concurrent half: callers of the same path under every interleaving up to the preemption bound must all succeed and leave the path absent with no collateral; callers of nested paths may fail but must not cause collateral. Attack half: directory<->symlink swaps at every syscall boundary (judged as C03).",
    TM_NOTE, "explicit-state enumeration with a reference twin + preemption-bounded exhaustive interleaving exploration + attacker schedules", "DESIGN.md 4/C13")
chk("C14", "treemc", "model_checking",
    "Bounded-exhaustive trees x path spellings x single-entry operations (create x 7 inode kinds, create_file x flags, remove_file, remove_dir, rename x flags, C entry points with raw S_IFMT): every case on a rebuilt tree on both backends and on an oracle twin where the harness resolves the parent with openat2(RESOLVE_IN_ROOT) and issues the single raw *at call; errno and canonical resulting filesystem must be identical (this is the frame condition); trailing slash => invalid argument (or the lookup error of the part before it) and no effect.",
    TM_NOTE, "explicit-state enumeration of operation applications against a reference twin (state = canonical tree)", "DESIGN.md 4/C14")

chk("C09", "treemc", "model_checking",
    "Breadth-first search over histories of rename/replace/unlink/recreate/exchange/move-out steps applied to the handle's path between resolve and reopen, for every inode type, descriptor number (0 included), flag set (incl. creation flags), both backends and both entry points; at every reached state the reopen result is compared with the kernel's own answer for re-opening a descriptor the harness pins on the same inode (identity, access mode, status flags, close-on-exec; ELOOP for symlink handles; creation flags refused without effect).",
    TM_NOTE + " Host-/proc over-mount states are exercised by C06's engine.",
    "explicit-state search over operation histories with the real reopen as transition probe and a kernel oracle", "DESIGN.md 4/C09")
chk("C17", "treemc", "exploration",
    "Exhaustive enumeration of (exported function x invalid-argument class) and of (link length x caller buffer size incl. NULL) with canaries around the buffer; oracle from the statement: error id below -4095 with EINVAL/ENOSYS, consumed exactly once, descriptor table and filesystem untouched; full length returned, exactly min(len,size) bytes copied.",
    "The worker calls the exported extern \"C\" symbols of the rlib directly (the ABI a C caller uses); agreement of include/pathrs.h with those symbols is C18 (not claimed).",
    "exhaustive enumeration of a finite argument space", "DESIGN.md 4/C17")

chk("C16", "loomcheck+sysmc", "model_checking",
    "loom explores every interleaving (bounded preemptions) of small multi-threaded programs of failing C-API calls and pathrs_errorinfo calls against the UNMODIFIED sources (std::sync/thread, once_cell and rand re-targeted to loom-backed shims by dependency renaming), with scripted random words forcing id collisions; each execution's call/return history is checked for linearizability against a plain map. In addition the errno of every error kind is checked through the C API on both backends, and safety violations produced by injected EAGAIN storms and by attacker schedules must surface as EXDEV with an id below -4095 consumed exactly once.",
    "Trusts loom's scheduling model (sequentially consistent switching at synchronisation points) and that the error table is only reachable through its Mutex; small programs (2-3 threads, <=3 ops).",
    "exhaustive bounded-preemption interleaving exploration (loom) with a linearizability oracle + enumerated error kinds", "DESIGN.md 4/C16")

chk("C15", "treemc", "exploration",
    "Complete enumeration of the finite configuration product (sysctl x caller identity incl. capability-less root x directory mode x directory owner x link owner x link position incl. links reached through other links); the emulated backend must refuse with EACCES exactly where the kernel backend does for the same user on the same tree; fresh worker processes per sysctl value because the library caches it.",
    "Needs root and a writable global fs.protected_symlinks (restored on exit; a lock serialises concurrent runs). The kernel backend is the reference.",
    "exhaustive enumeration of a finite configuration space (differential against the kernel)", "DESIGN.md 4/C15", thorough=False)

chk("C07", "treemc", "exploration",
    "Sub-paths are generated from the live content of the worker's own procfs directories (every entry, one level below the link directories, decorated with '.', '..', '', slashes, and magic-links used as components), crossed with flag sets and entry points, and run on both procfs resolvers; oracles from the statement: escapes fail with EXDEV/ELOOP, non-following opens return the link itself, open_follow returns exactly what the kernel opens through the link, creation flags are refused, and the two resolvers agree on every non-empty '..'-free sub-path.",
    "The live procfs of the worker process defines the input space (entries that depend on addresses or block are excluded and listed in the source); kernel 6.18.",
    "exhaustive enumeration of a generated finite input space with differential (two resolvers) and statement oracles", "DESIGN.md 4/C07")

chk("C08", "sysmc", "model_checking",
    "The configuration product the statement names is realised for real (caller privilege x mount options of the /proc the process lives with x handle constructor x base x existing/missing/masked sub-path) and every lookup is traced under ptrace with RLIMIT_NOFILE=256; on top, the handle-construction/retry protocol is explored under every single (thorough: pair of) deviating environment answers of fsopen/fsconfig/fsmount/open_tree/open(/proc)/faccessat2. Oracle: a missing path reports ENOENT; per lookup a constant number of procfs handles (<= 4) and descriptors (<= 24), termination within the horizon.",
    SYS_NOTE + " The jail's own /proc mount plays the role of the host's /proc.",
    "exhaustive enumeration of a finite configuration space + deviation-bounded exploration of environment answers over the traced retry protocol", "DESIGN.md 4/C08")

chk("C06", "treemc+sysmc", "model_checking",
    "Static half: every single (thorough: every pair of) over-mount(s) of the over-mountable procfs entries x over-mount kinds, for seven handle kinds (private fsopen, global handle via the C API, open_tree clone taken before/after the mount, plain open before/after, user-supplied fd) x both procfs resolvers x open/readlink/open_follow lookups across the three bases; oracle: the same handle kind's answers without over-mounts, the identities of the over-mount sources and the traversal set of every lookup (visible over-mount on the way => EXDEV, otherwise the pristine answer; private handles always pristine). Racing half: one mount/umount (thorough: two) of each kind is applied before every procfs syscall of non-following lookups under ptrace; a success must be a genuine procfs object, private handles must not be affected at all.",
    "Mounts happen in the shard's private mount namespace on the jail's /proc; Linux 6.18 (refuses mounts on /proc/<pid>/fd/<n>, reports STATX_MNT_ID); no-openat2 / no-new-mount-API by seccomp ENOSYS.",
    "exhaustive enumeration of mount layouts with a pristine-instance oracle + deviation-bounded exhaustive placement of racing mounts under a ptrace-controlled scheduler", "DESIGN.md 4/C06")

not_applicable = [
    {"property_id": "C18", "reason": "relates static artefacts (exported symbols, header, Go/Python binding declarations); there is no behaviour, schedule or state space to enumerate - deciding it is translation validation / static comparison, a different family (DESIGN.md section 5)"},
]
import sys
todo = {f"C{i:02d}" for i in range(1, 18)} - set(checks)
assert not todo, todo
for pid in sorted(todo):
    not_applicable.append({"property_id": pid, "reason": "check not built yet in this snapshot of /verif (planned, see DESIGN.md); not claimed until its check exists"})
manifest = {
    "version": 1,
    "setup_cmd": "cd /verif/harness && CARGO_NET_OFFLINE=true cargo build --release --offline && cd /verif/loomcheck && CARGO_NET_OFFLINE=true cargo build --release --offline",
    "hooks": {"guard": "none", "enable": "no hooks in /repo: the syscall boundary is observed and perturbed from outside (ptrace, seccomp), see DESIGN.md 3.5",
              "baseline_off_cmd": BASE, "source_commits": [], "add_only": True},
    "engines": [
        {"name": "treemc", "path": "/verif/harness/vmc", "serves_properties": ["C01", "C04", "C09", "C12", "C13", "C14", "C15", "C17", "C06", "C07"], "kind_free_text": "bounded-exhaustive input/state enumeration with kernel oracle, reference model and twin trees, inside a tmpfs jail"},
        {"name": "sysmc", "path": "/verif/harness/vmc", "serves_properties": ["C02", "C03", "C05", "C08", "C10", "C11", "C12", "C13"], "kind_free_text": "stateless model checking at the syscall boundary: ptrace supervisor enumerating attacker mutations / injected errnos / context switches with a deviation bound"},
        {"name": "loomcheck", "path": "/verif/loomcheck", "serves_properties": ["C16"], "kind_free_text": "loom over the unmodified sources compiled against shimmed std/once_cell/rand"},
    ],
    "checks": [checks[k] for k in sorted(checks)],
    "not_applicable": not_applicable,
    "notes": "Exit codes of every check: 0 held, 1 VIOLATION line, >=2 machinery problem. Known findings: /verif/known_findings.jsonl.",
}
json.dump(manifest, open("/verif/MANIFEST.json", "w"), indent=1)
print("checks:", sorted(checks), "n/a:", [x["property_id"] for x in not_applicable])
