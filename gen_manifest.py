#!/usr/bin/env python3
"""Regenerates MANIFEST.json from the table below (kept as a script so that the manifest stays consistent)."""
import json
BASE = "cd /repo && cargo nextest run --workspace --no-fail-fast --tool-config-file pb:/w/lib/nextest.toml --profile pb --test-threads 8 --offline"
checks = {}
def chk(pid, engine, cat, text, note, technique, ref, thorough=True):
    checks[pid] = {
        "property_id": pid,
        "quick_cmd": f"./check {pid} --tier quick",
        **({"thorough_cmd": f"./check {pid} --tier thorough"} if thorough else {}),
        "evidence_file": f"/verif/evidence/{pid}.json",
        "replay_cmd_template": f"./check {pid} --replay {{path}}",
        "engine": engine,
        "level_claimed": {"category": cat, "text": text, "design_ref": ref},
        "level_note": note,
        "technique": technique,
    }

chk("C01", "treemc", "model_checking",
    "Bounded-exhaustive enumeration of every tree x path x lookup operation x resolver flag x backend in a stated small scope; a reference model of in-root resolution is run on every case, validated case-by-case against the running kernel's openat2(RESOLVE_IN_ROOT) and then both libpathrs backends are compared with it; containment is checked independently against a snapshot of the tree.",
    "Trusts the running kernel's openat2 as the definition of in-root resolution; kernel-without-openat2 simulated by seccomp ENOSYS; small-scope hypothesis (names a,b, depth 2, listed link bodies, paths <=2/3 components).",
    "explicit enumeration of a finite input space + reference model with trace conformance against kernel and implementation", "DESIGN.md 4/C01")

not_applicable = [
    {"property_id": "C18", "reason": "relates static artefacts (exported symbols, header, Go/Python binding declarations); there is no behaviour, schedule or state space to enumerate - deciding it is translation validation / static comparison, a different family (DESIGN.md section 5)"},
]
import sys
todo = {f"C{i:02d}" for i in range(1, 18)} - set(checks)
for pid in sorted(todo):
    not_applicable.append({"property_id": pid, "reason": "check not built yet in this snapshot of /verif (planned, see DESIGN.md); not claimed until its check exists"})
manifest = {
    "version": 1,
    "setup_cmd": "cd /verif/harness && CARGO_NET_OFFLINE=true cargo build --release --offline",
    "hooks": {"guard": "none", "enable": "no hooks in /repo: the syscall boundary is observed and perturbed from outside (ptrace, seccomp), see DESIGN.md 3.5",
              "baseline_off_cmd": BASE, "source_commits": [], "add_only": True},
    "engines": [
        {"name": "treemc", "path": "/verif/harness/vmc", "serves_properties": ["C01", "C04", "C09", "C12", "C13", "C14", "C15", "C17", "C06", "C07"], "kind_free_text": "bounded-exhaustive input/state enumeration with kernel oracle, reference model and twin trees, inside a tmpfs jail"},
        {"name": "sysmc", "path": "/verif/harness/vmc", "serves_properties": ["C02", "C03", "C05", "C08", "C10", "C11", "C12", "C13"], "kind_free_text": "stateless model checking at the syscall boundary: ptrace supervisor enumerating attacker mutations / injected errnos / context switches with a deviation bound"},
        {"name": "loomcheck", "path": "/verif/loomcheck", "serves_properties": ["C16"], "kind_free_text": "loom over the unmodified sources compiled against shimmed std/once_cell/rand"},
    ],
    "checks": [checks[k] for k in sorted(checks)],
    "not_applicable": not_applicable,
    "notes": "Exit codes of every check: 0 held, 1 VIOLATION line, >=2 machinery problem. Known findings: /verif/known_findings.jsonl.",
}
json.dump(manifest, open("/verif/MANIFEST.json", "w"), indent=1)
print("checks:", sorted(checks), "n/a:", [x["property_id"] for x in not_applicable])
