#!/bin/bash
# triage2.sh <Cxx> <n> [check ids...] : run quick checks against a round-2 candidate patch (default: the property's own check)
ID=$1; N=$2; shift 2
CH="$@"; [ -z "$CH" ] && CH=$ID
P=/tmp/seed2/$ID/out/patch$N.diff
[ -f $P ] || { echo "$ID-$N: no patch"; exit 0; }
echo "### $ID r2#$N"
SHOW=2 /verif/seedtest.sh $P $CH 2>&1 | tr -d '\000' | cut -c1-330
